module verifh

go 1.22

require github.com/yuin/goldmark v0.0.0

replace github.com/yuin/goldmark => /repo
