// Package vp holds the harness intrinsics. The symbolic engine intercepts every function
// here by name; the bodies below are the native (replay) meaning, reading inputs from a model.
package vp

import (
	"encoding/hex"
	"fmt"
	"os"
	"strconv"
)

// Model holds concrete input values for a native replay, keyed by variable name.
var (
	Model     = map[string]uint64{}
	Params    = map[string]string{}
	nameCount = map[string]int{}
	Out       = os.Stdout
)

// Reset prepares a new native run.
func Reset(model map[string]uint64, params map[string]string) {
	Model, Params = model, params
	nameCount = map[string]int{}
}

type AssumeFailed struct{}
type AssertFailed struct{ Msg string }

func get(name string) uint64 {
	n := nameCount[name]
	nameCount[name] = n + 1
	if n > 0 {
		name = name + "~" + strconv.Itoa(n)
	}
	return Model[name]
}

func Byte(name string) byte { return byte(get(name)) }
func Bool(name string) bool { return get(name) != 0 }
func Int(name string) int   { return int(int64(get(name))) }
func Rune(name string) rune { return rune(int32(get(name))) }
func IntRange(name string, lo, hi int) int {
	if hi < lo {
		panic(AssumeFailed{})
	}
	var v int
	if hi-lo <= 255 {
		v = lo + int(byte(get(name))) // small ranges are encoded as an 8-bit offset from lo
	} else {
		v = int(int64(get(name)))
	}
	if v < lo || v > hi {
		panic(AssumeFailed{})
	}
	return v
}
func Bytes(name string, n int) []byte {
	b := make([]byte, n)
	for i := range b {
		b[i] = byte(get(name + "_" + strconv.Itoa(i)))
	}
	return b
}
func Assume(c bool) {
	if !c {
		panic(AssumeFailed{})
	}
}
func Assert(c bool, msg string) {
	if !c {
		fmt.Fprintf(Out, "ASSERT-FAIL %s\n", msg)
		panic(AssertFailed{msg})
	}
}
func Fail(msg string)   { Assert(false, msg) }
func Reach(tag string)  { fmt.Fprintf(Out, "REACH %s\n", tag) }
func Observe(name string, b []byte) {
	fmt.Fprintf(Out, "OBS %s %s\n", name, hex.EncodeToString(b))
}
func ObserveInt(name string, v int) {
	var b [8]byte
	for i := 0; i < 8; i++ {
		b[i] = byte(uint64(v) >> uint(56-8*i))
	}
	Observe(name, b[:])
}
func EqBytes(a, b []byte) bool   { return string(a) == string(b) }
func EqString(a, b string) bool  { return a == b }
func And(a, b bool) bool         { return a && b }
func Or(a, b bool) bool          { return a || b }
func Not(a bool) bool            { return !a }
func Implies(a, b bool) bool     { return !a || b }
func IteByte(c bool, a, b byte) byte {
	if c {
		return a
	}
	return b
}
func IteInt(c bool, a, b int) int {
	if c {
		return a
	}
	return b
}
func InSet(b byte, set string) bool {
	for i := 0; i < len(set); i++ {
		if set[i] == b {
			return true
		}
	}
	return false
}
func InRange(b, lo, hi byte) bool { return lo <= b && b <= hi }
func ParamInt(name string, def int) int {
	if s, ok := Params[name]; ok {
		n, _ := strconv.Atoi(s)
		return n
	}
	return def
}
func ParamStr(name string, def string) string {
	if s, ok := Params[name]; ok {
		return s
	}
	return def
}
func IsSymbolic(x interface{}) bool  { return false }
func Concrete(x int) int             { return x }
func ConcreteByte(x byte) byte       { return x }
func ReadOnly(b []byte)              {}
func Freeze(roots ...interface{})    {}
func FreezeFresh(roots ...interface{}) {}
func NewCall()                       {}
func Unfreeze()                      {}
func Symbolic() bool                 { return false }
