// Command replay runs harness entry points natively on concrete models (counterexample
// replay and translator validation). Built with -overlay so in-package harnesses exist.
package main

import (
	"encoding/json"
	"fmt"
	"os"
	"runtime/debug"
	"strings"

	"verifh/h"
	"verifh/vp"
)

type Case struct {
	Entry  string            `json:"entry"`
	Params map[string]string `json:"params"`
	Model  map[string]uint64 `json:"model"`
}

func runCase(i int, c Case) {
	fmt.Printf("CASE %d\n", i)
	name := c.Entry
	if k := strings.LastIndex(name, "."); k >= 0 {
		name = name[k+1:]
	}
	f := h.Entries[name]
	if f == nil {
		fmt.Printf("OUTCOME missing-entry %s\n", name)
		return
	}
	vp.Reset(c.Model, c.Params)
	defer func() {
		if r := recover(); r != nil {
			switch r := r.(type) {
			case vp.AssumeFailed:
				fmt.Println("OUTCOME assume-failed")
			case vp.AssertFailed:
				fmt.Printf("OUTCOME assert %s\n", r.Msg)
			default:
				msg := fmt.Sprint(r)
				if e, ok := r.(error); ok {
					msg = e.Error()
				}
				fmt.Printf("OUTCOME panic %s\n", strings.ReplaceAll(msg, "\n", " "))
				if os.Getenv("REPLAY_STACK") != "" {
					fmt.Printf("%s\n", debug.Stack())
				}
			}
			return
		}
		fmt.Println("OUTCOME ok")
	}()
	f()
}

func main() {
	if len(os.Args) < 2 {
		fmt.Fprintln(os.Stderr, "usage: replay cases.json")
		os.Exit(2)
	}
	b, err := os.ReadFile(os.Args[1])
	if err != nil {
		fmt.Fprintln(os.Stderr, err)
		os.Exit(2)
	}
	var cases []Case
	if err := json.Unmarshal(b, &cases); err != nil {
		fmt.Fprintln(os.Stderr, err)
		os.Exit(2)
	}
	for i, c := range cases {
		runCase(i, c)
	}
}
