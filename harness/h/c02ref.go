package h

import (
	"bytes"

	"verifh/vp"
)

// ---------------------------------------------------------------------------------------------
// C02 part A'': the boundary of a link reference definition (CommonMark 4.7). A definition
//
//	[L]: ws1 DEST [sep TITLE] trailer
//
// followed by a blank line and the shortcut reference [L]. The shapes are enumerated by the driver
// (whitespace between colon and destination, destination bare or <...>, separator in front of the
// title: none / a space / a line ending / a line ending and a space, title delimiter " ' (, title on
// one or two lines, trailer: nothing / a space / more text); label, destination and title letters are
// symbolic. The prescribed meaning follows from 4.7 alone:
//   - title followed by nothing but whitespace: the definition has that title;
//   - title followed by text: if the title started on a line of its own, the definition ends with
//     the destination and the title line is paragraph text; otherwise nothing is a definition;
//   - no title and text behind the destination: not a definition.
// ---------------------------------------------------------------------------------------------

func H_c02_refdef() {
	m := WarmMD("core||unsafe,xhtml")
	ws1 := vp.ParamInt("ws1", 0)     // 0 " "  1 "\n"  2 "\n  "  3 ""
	angle := vp.ParamInt("angle", 0) // destination written <...>
	sep := vp.ParamInt("sep", 0)     // 0 no title  1 " "  2 "\n"  3 "\n "
	q := vp.ParamInt("q", 0)         // 0 "  1 '  2 (
	tl := vp.ParamInt("tl", 1)       // 1: title "ab"; 2: title "a\nb"
	tr := vp.ParamInt("tr", 0)       // 0 ""  1 " "  2 " x"
	letter := func() byte {
		b := vp.Byte("t")
		vp.Assume(vp.InRange(b, 'a', 'z'))
		return b
	}
	l1, l2, d1, t1, t2, x := letter(), letter(), letter(), letter(), letter(), letter()
	open, clos := []byte{'"', '\'', '('}[q], []byte{'"', '\'', ')'}[q]
	openH := [][]byte{[]byte("&quot;"), []byte("'"), []byte("(")}[q]
	closH := [][]byte{[]byte("&quot;"), []byte("'"), []byte(")")}[q]

	var md []byte
	md = append(md, '[', l1, l2, ']', ':')
	md = append(md, []string{" ", "\n", "\n  ", ""}[ws1]...)
	dest := []byte{'x', '/', d1} // not a tag name even inside <...> (block structure comes first: </ul> would open an HTML block)
	if angle == 1 {
		md = append(append(append(md, '<'), dest...), '>')
	} else {
		md = append(md, dest...)
	}
	var title []byte
	if sep != 0 {
		md = append(md, []string{"", " ", "\n", "\n "}[sep]...)
		title = []byte{t1, t2}
		if tl == 2 {
			title = []byte{t1, '\n', t2}
		}
		md = append(append(append(md, open), title...), clos)
	}
	md = append(md, []string{"", " ", " "}[tr]...)
	if tr == 2 {
		md = append(md, x)
	}
	// cont: paragraph text directly behind the definition (no blank line), indented by nothing, 1, 3 or 4 spaces
	// or a tab: the definition is removed and the text is a paragraph of its own, leading whitespace stripped
	cont := vp.ParamInt("cont", 0)
	if cont > 0 && tr == 0 {
		md = append(md, '\n')
		md = append(md, []string{"", "", " ", "   ", "    ", "\t"}[cont]...)
		md = append(md, x, x)
	}
	md = append(md, "\n\n["...)
	md = append(md, l1, l2, ']', '\n')

	link := func(withTitle bool) []byte {
		h := append([]byte("<p><a href=\""), dest...)
		h = append(h, '"')
		if withTitle {
			h = append(append(append(h, " title=\""...), title...), '"')
		}
		h = append(h, '>', l1, l2)
		return append(h, "</a></p>\n"...)
	}
	var want []byte
	switch {
	case tr != 2:
		// nothing but whitespace behind the last element: a definition, with the title if one was written
		if cont > 0 && tr == 0 {
			want = append(want, '<', 'p', '>', x, x)
			want = append(want, "</p>\n"...)
		}
		want = append(want, link(sep != 0)...)
	case sep >= 2:
		// title candidate on its own line but followed by text: definition without title, then a paragraph
		want = append(want, "<p>"...)
		want = append(append(append(want, openH...), title...), closH...)
		want = append(want, ' ', x)
		want = append(want, "</p>\n"...)
		want = append(want, link(false)...)
	default:
		// text on the line of the destination (directly or behind a title candidate): no definition at all.
		// Only written out for the bare destination (a <...> destination would be read as raw HTML / autolink).
		if angle == 1 {
			vp.Reach("done")
			return
		}
		want = append(want, "<p>["...)
		want = append(want, l1, l2, ']', ':')
		switch ws1 {
		case 0:
			want = append(want, ' ')
		case 1, 2:
			want = append(want, '\n')
		}
		want = append(want, dest...)
		if sep == 1 {
			want = append(want, ' ')
			want = append(append(append(want, openH...), title...), closH...)
		}
		want = append(want, ' ', x)
		want = append(want, "</p>\n<p>["...)
		want = append(want, l1, l2, ']')
		want = append(want, "</p>\n"...)
	}
	vp.Observe("src", md)
	vp.Observe("want", want)
	var o bytes.Buffer
	e := m.Convert(md, &o)
	vp.Assert(e == nil, "conversion returned an error")
	vp.Observe("got", o.Bytes())
	vp.Assert(vp.EqBytes(o.Bytes(), want), "link reference definition boundary: rendering differs from what CommonMark 4.7 prescribes")
	vp.Reach("done")
}

func init() { reg("H_c02_refdef", H_c02_refdef) }

// ---------------------------------------------------------------------------------------------
// C02 part A''': HTML blocks (CommonMark 4.6). The seven start conditions and their end conditions
// are enumerated by the driver; the letter case of every tag-name letter is a symbolic bit (the
// conditions are case-insensitive), content letters are symbolic. Layout:
//
//	IND open-line / *x* / end-line / [blank] / *y*
//
// Expected (unsafe mode): the block's lines verbatim up to and including the line that meets the end
// condition (types 1-5) or up to the blank line (types 6, 7), then the emphasis paragraph.
// ---------------------------------------------------------------------------------------------

var c02Type1 = []string{"pre", "script", "style", "textarea"}
var c02Type6 = []string{"div", "p", "table", "h1", "ul", "li", "blockquote", "address", "details", "option", "tr", "section"}

func H_c02_html() {
	m := WarmMD("core||unsafe,xhtml")
	kind := vp.ParamInt("kind", 1)
	ind := vp.ParamInt("ind", 0)
	t1, t2 := vp.ParamInt("t1", 0), vp.ParamInt("t2", 0)
	oneLine := vp.ParamInt("oneline", 0) == 1
	letter := func() byte {
		b := vp.Byte("t")
		vp.Assume(vp.InRange(b, 'a', 'z'))
		return b
	}
	// the case of the first, middle and last letter of a tag name is symbolic (the matcher forks per letter, so
	// all letters would be 2^len paths); the other letters are lower case, or upper case with upper=1
	upper := vp.ParamInt("upper", 0) == 1
	anycase := func(name string) []byte {
		out := make([]byte, len(name))
		for i := 0; i < len(name); i++ {
			lo := name[i]
			if lo < 'a' || lo > 'z' {
				out[i] = lo
				continue
			}
			if i == 0 || i == len(name)/2 || i == len(name)-1 {
				c := vp.Byte("case")
				vp.Assume(vp.Or(c == lo, c == lo-32))
				out[i] = c
			} else if upper {
				out[i] = lo - 32
			} else {
				out[i] = lo
			}
		}
		return out
	}
	x, y := letter(), letter()
	var open, end []byte
	blankEnds := false
	switch kind {
	case 1:
		open = append(append([]byte("<"), anycase(c02Type1[t1])...), '>')
		end = append(append([]byte("</"), anycase(c02Type1[t2])...), '>')
	case 2:
		open, end = []byte("<!--"), []byte("-->")
	case 3:
		open, end = []byte("<?"), []byte("?>")
	case 4:
		open, end = append([]byte("<!"), letter()-32), []byte(">")
	case 5:
		open, end = []byte("<![CDATA["), []byte("]]>")
	case 6:
		open = append(append([]byte("<"), anycase(c02Type6[t1])...), '>')
		end = append(append([]byte("</"), anycase(c02Type6[t1])...), '>')
		blankEnds = true
	case 7:
		open = append(append([]byte("</"), anycase(c02Type6[t1])...), '>')
		end = []byte("<br/>")
		blankEnds = true
	case 8: // type 7: a complete tag of an unknown name alone on its line
		open = []byte{'<', letter(), letter(), letter(), 'q', '>'}
		end = []byte("</q>")
		blankEnds = true
	}
	var md, want []byte
	for i := 0; i < ind; i++ {
		md = append(md, ' ')
	}
	md = append(md, open...)
	if oneLine {
		// end condition met on the first line (types 1-5): the block is that line
		md = append(md, '*', x, '*')
		md = append(md, end...)
		md = append(md, " z\n"...)
	} else {
		md = append(md, '\n', '*', x, '*', '\n')
		md = append(md, end...)
		md = append(md, " z\n"...)
	}
	if blankEnds {
		// more raw text behind the would-be end line, then the blank line that really ends the block
		md = append(md, '*', x, '*', '\n')
	}
	want = append(want, md...)
	if blankEnds {
		md = append(md, '\n')
	}
	md = append(md, '*', y, '*', '\n')
	want = append(want, "<p><em>"...)
	want = append(want, y)
	want = append(want, "</em></p>\n"...)
	vp.Observe("src", md)
	vp.Observe("want", want)
	var o bytes.Buffer
	e := m.Convert(md, &o)
	vp.Assert(e == nil, "conversion returned an error")
	vp.Observe("got", o.Bytes())
	vp.Assert(vp.EqBytes(normHTML(o.Bytes()), normHTML(want)), "HTML block: start/end condition not applied as CommonMark 4.6 prescribes")
	vp.Reach("done")
}

func init() { reg("H_c02_html", H_c02_html) }

// ---------------------------------------------------------------------------------------------
// C02 part A'''': which list items may interrupt a paragraph (CommonMark 5.2/5.3): a non-empty bullet
// item may; an ordered item only when its start number is 1 - however it is spelled (01., 001)) -;
// an empty item never. Layout: "para" / marker [content]. Marker spelling enumerated (leading zeros,
// value 1 or 2), delimiter and bullet character symbolic.
// ---------------------------------------------------------------------------------------------

func H_c02_interrupt() {
	m := WarmMD("core||unsafe,xhtml")
	kind := vp.ParamInt("kind", 0) // 0 ordered, 1 bullet
	zeros := vp.ParamInt("zeros", 0)
	val := vp.ParamInt("val", 1)
	empty := vp.ParamInt("empty", 0) == 1
	ind := vp.ParamInt("ind", 0)
	letter := func() byte {
		b := vp.Byte("t")
		vp.Assume(vp.InRange(b, 'a', 'z'))
		return b
	}
	p1, p2, c := letter(), letter(), letter()
	var marker []byte
	if kind == 0 {
		for i := 0; i < zeros; i++ {
			marker = append(marker, '0')
		}
		d := vp.Byte("odelim")
		vp.Assume(vp.InSet(d, ".)"))
		marker = append(marker, byte('0'+val), d)
	} else {
		b := vp.Byte("bullet")
		vp.Assume(vp.InSet(b, "*+"))
		marker = append(marker, b)
	}
	md := []byte{p1, p2, '\n'}
	for i := 0; i < ind; i++ {
		md = append(md, ' ')
	}
	md = append(md, marker...)
	if !empty {
		md = append(md, ' ', c)
	}
	md = append(md, '\n')
	interrupts := !empty && (kind == 1 || val == 1)
	var want []byte
	if interrupts {
		want = append(want, '<', 'p', '>', p1, p2)
		want = append(want, "</p>\n"...)
		if kind == 0 {
			want = append(want, "<ol>\n<li>"...)
			want = append(want, c)
			want = append(want, "</li>\n</ol>\n"...)
		} else {
			want = append(want, "<ul>\n<li>"...)
			want = append(want, c)
			want = append(want, "</li>\n</ul>\n"...)
		}
	} else {
		want = append(want, '<', 'p', '>', p1, p2, '\n')
		want = append(want, marker...)
		if !empty {
			want = append(want, ' ', c)
		}
		want = append(want, "</p>\n"...)
	}
	vp.Observe("src", md)
	vp.Observe("want", want)
	var o bytes.Buffer
	e := m.Convert(md, &o)
	vp.Assert(e == nil, "conversion returned an error")
	vp.Observe("got", o.Bytes())
	vp.Assert(vp.EqBytes(normHTML(o.Bytes()), normHTML(want)), "list item interrupting a paragraph: not what CommonMark 5.2/5.3 prescribes")
	vp.Reach("done")
}

func init() { reg("H_c02_interrupt", H_c02_interrupt) }
