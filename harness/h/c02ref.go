package h

import (
	"bytes"

	"verifh/vp"
)

// ---------------------------------------------------------------------------------------------
// C02 part A'': the boundary of a link reference definition (CommonMark 4.7). A definition
//
//	[L]: ws1 DEST [sep TITLE] trailer
//
// followed by a blank line and the shortcut reference [L]. The shapes are enumerated by the driver
// (whitespace between colon and destination, destination bare or <...>, separator in front of the
// title: none / a space / a line ending / a line ending and a space, title delimiter " ' (, title on
// one or two lines, trailer: nothing / a space / more text); label, destination and title letters are
// symbolic. The prescribed meaning follows from 4.7 alone:
//   - title followed by nothing but whitespace: the definition has that title;
//   - title followed by text: if the title started on a line of its own, the definition ends with
//     the destination and the title line is paragraph text; otherwise nothing is a definition;
//   - no title and text behind the destination: not a definition.
// ---------------------------------------------------------------------------------------------

func H_c02_refdef() {
	m := WarmMD("core||unsafe,xhtml")
	ws1 := vp.ParamInt("ws1", 0)     // 0 " "  1 "\n"  2 "\n  "  3 ""
	angle := vp.ParamInt("angle", 0) // destination written <...>
	sep := vp.ParamInt("sep", 0)     // 0 no title  1 " "  2 "\n"  3 "\n "
	q := vp.ParamInt("q", 0)         // 0 "  1 '  2 (
	tl := vp.ParamInt("tl", 1)       // 1: title "ab"; 2: title "a\nb"
	tr := vp.ParamInt("tr", 0)       // 0 ""  1 " "  2 " x"
	letter := func() byte {
		b := vp.Byte("t")
		vp.Assume(vp.InRange(b, 'a', 'z'))
		return b
	}
	l1, l2, d1, t1, t2, x := letter(), letter(), letter(), letter(), letter(), letter()
	open, clos := []byte{'"', '\'', '('}[q], []byte{'"', '\'', ')'}[q]
	openH := [][]byte{[]byte("&quot;"), []byte("'"), []byte("(")}[q]
	closH := [][]byte{[]byte("&quot;"), []byte("'"), []byte(")")}[q]

	var md []byte
	md = append(md, '[', l1, l2, ']', ':')
	md = append(md, []string{" ", "\n", "\n  ", ""}[ws1]...)
	dest := []byte{'x', '/', d1} // not a tag name even inside <...> (block structure comes first: </ul> would open an HTML block)
	if angle == 1 {
		md = append(append(append(md, '<'), dest...), '>')
	} else {
		md = append(md, dest...)
	}
	var title []byte
	if sep != 0 {
		md = append(md, []string{"", " ", "\n", "\n "}[sep]...)
		title = []byte{t1, t2}
		if tl == 2 {
			title = []byte{t1, '\n', t2}
		}
		md = append(append(append(md, open), title...), clos)
	}
	md = append(md, []string{"", " ", " "}[tr]...)
	if tr == 2 {
		md = append(md, x)
	}
	md = append(md, "\n\n["...)
	md = append(md, l1, l2, ']', '\n')

	link := func(withTitle bool) []byte {
		h := append([]byte("<p><a href=\""), dest...)
		h = append(h, '"')
		if withTitle {
			h = append(append(append(h, " title=\""...), title...), '"')
		}
		h = append(h, '>', l1, l2)
		return append(h, "</a></p>\n"...)
	}
	var want []byte
	switch {
	case tr != 2:
		// nothing but whitespace behind the last element: a definition, with the title if one was written
		want = link(sep != 0)
	case sep >= 2:
		// title candidate on its own line but followed by text: definition without title, then a paragraph
		want = append(want, "<p>"...)
		want = append(append(append(want, openH...), title...), closH...)
		want = append(want, ' ', x)
		want = append(want, "</p>\n"...)
		want = append(want, link(false)...)
	default:
		// text on the line of the destination (directly or behind a title candidate): no definition at all.
		// Only written out for the bare destination (a <...> destination would be read as raw HTML / autolink).
		if angle == 1 {
			vp.Reach("done")
			return
		}
		want = append(want, "<p>["...)
		want = append(want, l1, l2, ']', ':')
		switch ws1 {
		case 0:
			want = append(want, ' ')
		case 1, 2:
			want = append(want, '\n')
		}
		want = append(want, dest...)
		if sep == 1 {
			want = append(want, ' ')
			want = append(append(append(want, openH...), title...), closH...)
		}
		want = append(want, ' ', x)
		want = append(want, "</p>\n<p>["...)
		want = append(want, l1, l2, ']')
		want = append(want, "</p>\n"...)
	}
	vp.Observe("src", md)
	vp.Observe("want", want)
	var o bytes.Buffer
	e := m.Convert(md, &o)
	vp.Assert(e == nil, "conversion returned an error")
	vp.Observe("got", o.Bytes())
	vp.Assert(vp.EqBytes(o.Bytes(), want), "link reference definition boundary: rendering differs from what CommonMark 4.7 prescribes")
	vp.Reach("done")
}

func init() { reg("H_c02_refdef", H_c02_refdef) }
