package h

import (
	"bytes"

	"github.com/yuin/goldmark/text"
	"verifh/vp"
)

// H_c07_shared decides the schedule-independent sufficient condition for C07 on every explored input:
// with a brand-new instance and all of goldmark's package globals under the write barrier,
//   (b) first use:   every store to shared state during the first Convert lies inside (*sync.Once).Do;
//   (a) steady state: later Convert / Parse / Render calls store nothing into shared state at all;
// and every call returns the same bytes. No unsynchronised conflicting access to shared state then
// exists, whatever the schedule.
func H_c07_shared() {
	cfg := vp.ParamStr("cfg", "")
	m := NewMD(cfg) // never used before: first use happens below, under the barrier
	b := Source()
	vp.Observe("src", b)
	vp.FreezeFresh(m)
	var o1, o2, o3 bytes.Buffer
	vp.NewCall()
	e1 := m.Convert(b, &o1)
	vp.NewCall()
	e2 := m.Convert(b, &o2)
	vp.NewCall()
	doc := m.Parser().Parse(text.NewReader(b))
	vp.NewCall()
	e3 := m.Renderer().Render(&o3, b, doc)
	vp.Unfreeze()
	vp.Assert(e1 == nil && e2 == nil && e3 == nil, "conversion returned an error")
	vp.Assert(vp.EqBytes(o1.Bytes(), o2.Bytes()), "first use and second use of an instance differ")
	vp.Assert(vp.EqBytes(o1.Bytes(), o3.Bytes()), "Convert differs from Parse+Render on a shared instance")
	vp.Reach("done")
}

func init() { reg("H_c07_shared", H_c07_shared) }
