package h

import (
	"bufio"
	"bytes"
	"errors"

	"verifh/vp"
)

var errInjected = errors.New("injected writer failure")

// failWriter accepts bytes up to offset k, then returns a short count and an error, and fails
// on every later call. It records every byte it accepted.
type failWriter struct {
	k       int
	written int
	rec     []byte
	failed  bool
	calls   int
}

func (w *failWriter) Write(p []byte) (int, error) {
	w.calls++
	if w.failed {
		return 0, errInjected
	}
	if w.written+len(p) > w.k {
		n := w.k - w.written
		w.rec = append(w.rec, p[:n]...)
		w.written += n
		w.failed = true
		return n, errInjected
	}
	w.rec = append(w.rec, p...)
	w.written += len(p)
	return len(p), nil
}

func wrapsInjected(err error) bool {
	for e := err; e != nil; e = errors.Unwrap(e) {
		if e == errInjected {
			return true
		}
	}
	return false
}

// H_c14_writer: a failing destination surfaces as an error wrapping the writer's error, never a
// panic or success, and what the writer accepted is a prefix of the fault-free output.
func H_c14_writer() {
	md := WarmMD(vp.ParamStr("cfg", ""))
	var src []byte
	if d := vp.ParamStr("doc", ""); d != "" {
		src = []byte(d)
		if rep := vp.ParamInt("repeat", 1); rep > 1 {
			src = bytes.Repeat(src, rep)
		}
	} else {
		src = Source()
	}
	vp.Observe("src", src)
	var full bytes.Buffer
	if err := md.Convert(src, &full); err != nil {
		vp.Fail("fault-free conversion returned an error")
		return
	}
	want := full.Bytes()
	var k int
	if kp := vp.ParamInt("k", -1); kp >= 0 {
		k = kp
	} else if rel := vp.ParamInt("kend", -999); rel != -999 {
		k = len(want) + rel
		if k < 0 {
			k = 0
		}
	} else {
		k = vp.IntRange("k", 0, len(want)+1)
	}
	vp.ObserveInt("k", k)
	fw := &failWriter{k: k}
	var err error
	switch vp.ParamInt("mode", 0) {
	case 0:
		err = md.Convert(src, fw)
	case 1: // caller-supplied buffered writer (the BufWriter fast path), small buffer: many flushes
		bw := bufio.NewWriterSize(fw, vp.ParamInt("bufsize", 16))
		err = md.Convert(src, bw)
		// Render flushes a caller-supplied BufWriter before it returns ("Flush error returned", renderer.go): a
		// fault below the buffer is therefore reported by Convert itself, and on success nothing is left behind
		if err == nil {
			vp.Assert(bw.Buffered() == 0, "Convert returned with output still sitting in the caller's buffered writer (a failure of the destination below it would go unreported)")
			err = bw.Flush()
		}
	}
	if k < len(want) {
		vp.Reach("failed")
		vp.Assert(err != nil, "writer failed but Convert reported success")
		vp.Assert(wrapsInjected(err), "returned error does not wrap the writer's error")
	} else {
		vp.Reach("not-failed")
		vp.Assert(err == nil, "writer did not fail but Convert returned an error")
		vp.Assert(vp.EqBytes(fw.rec, want), "fault-free output differs between runs")
	}
	vp.Assert(len(fw.rec) <= len(want), "writer accepted more bytes than the fault-free output has")
	if len(fw.rec) <= len(want) {
		vp.Assert(vp.EqBytes(fw.rec, want[:len(fw.rec)]), "accepted bytes are not a prefix of the fault-free output")
	}
	vp.Reach("done")
}

func init() { reg("H_c14_writer", H_c14_writer) }
