package h

import (
	"github.com/yuin/goldmark/ast"
	"github.com/yuin/goldmark/text"
	"verifh/vp"
)

type c05State struct {
	src   []byte
	seen  map[ast.Node]bool
	nodes int
}

func segOK(s text.Segment, n int) bool {
	return vp.And(vp.And(0 <= s.Start, s.Start <= s.Stop), s.Stop <= n)
}

// c05Node checks one node and recurses. inLink: below a Link; blockLines: lines of the nearest
// enclosing block that has lines (nil if none); lastStart: document-order cursor for text segments (end of the last text segment seen in the block).
func (st *c05State) node(n ast.Node, parent ast.Node, inLink bool, blk ast.Node, lastStart *int) {
	st.nodes++
	if st.nodes > 4000 {
		vp.Fail("tree has more nodes than any input of this size can produce (cycle?)")
		return
	}
	if st.seen[n] {
		vp.Fail("a node appears twice in the tree")
		return
	}
	st.seen[n] = true
	vp.Assert(n.Parent() == parent, "child's Parent differs from the node that lists it")
	kind := n.Kind().String()
	vp.Assert(kind != "Delimiter", "leftover Delimiter node")
	vp.Assert(kind != "LinkLabelState", "leftover link-label bookkeeping node")
	isInline := n.Type() == ast.TypeInline
	if parent != nil && parent.Type() == ast.TypeInline {
		vp.Assert(isInline, "block node below an inline node")
	}
	if isInline {
		vp.Assert(parent != nil && parent.Type() != ast.TypeDocument, "inline node directly below the document")
	}
	// extension node kinds in legal places only (by kind name: the public contract of the extension ASTs)
	pk := ""
	if parent != nil {
		pk = parent.Kind().String()
	}
	switch kind {
	case "TableHeader", "TableRow":
		vp.Assert(pk == "Table", "table row outside a table")
	case "TableCell":
		vp.Assert(pk == "TableHeader" || pk == "TableRow", "table cell outside a table row")
	case "Table":
		first := true
		for c := n.FirstChild(); c != nil; c = c.NextSibling() {
			ck := c.Kind().String()
			if first {
				vp.Assert(ck == "TableHeader", "table does not start with its header row")
			} else {
				vp.Assert(ck == "TableRow", "table child that is not a row")
			}
			first = false
		}
		vp.Assert(!first, "table without a header row")
	case "DefinitionTerm", "DefinitionDescription":
		vp.Assert(pk == "DefinitionList", "definition term/description outside a definition list")
	case "DefinitionList":
		if fc := n.FirstChild(); fc != nil {
			vp.Assert(fc.Kind().String() == "DefinitionTerm", "definition list does not start with a term")
		}
	case "Footnote":
		vp.Assert(pk == "FootnoteList", "footnote outside the footnote list")
	case "FootnoteList":
		vp.Assert(pk == "Document" && n.NextSibling() == nil, "footnote list is not the last child of the document")
		for c := n.FirstChild(); c != nil; c = c.NextSibling() {
			vp.Assert(c.Kind().String() == "Footnote", "footnote list child that is not a footnote")
		}
	case "TaskCheckBox":
		vp.Assert(n.PreviousSibling() == nil && parent != nil && parent.Parent() != nil && parent.Parent().Kind().String() == "ListItem", "task check box that is not the first inline of a list item")
	case "FootnoteLink", "FootnoteBacklink", "Strikethrough":
		vp.Assert(isInline, "inline extension node typed as a block")
	}
	switch x := n.(type) {
	case *ast.Heading:
		vp.Assert(x.Level >= 1 && x.Level <= 6, "heading level outside 1..6")
	case *ast.Emphasis:
		vp.Assert(x.Level >= 1 && x.Level <= 2, "emphasis level outside 1..2")
	case *ast.ListItem:
		_, ok := parent.(*ast.List)
		vp.Assert(ok, "list item outside a list")
	case *ast.List:
		for c := n.FirstChild(); c != nil; c = c.NextSibling() {
			_, ok := c.(*ast.ListItem)
			vp.Assert(ok, "list child that is not a list item")
		}
	case *ast.Link:
		vp.Assert(!inLink, "link nested in a link")
		inLink = true
	case *ast.CodeSpan:
		for c := n.FirstChild(); c != nil; c = c.NextSibling() {
			_, ok := c.(*ast.Text)
			vp.Assert(ok, "code span holds a non-text node")
		}
	case *ast.Text:
		vp.Assert(segOK(x.Segment, len(st.src)), "text segment outside the source")
		if blk != nil && !vp.IsSymbolic(x.Segment.Start) {
			ls := blk.Lines()
			if ls.Len() > 0 && x.Segment.Start <= x.Segment.Stop && x.Segment.Stop <= len(st.src) {
				first, last := ls.At(0), ls.At(ls.Len()-1)
				vp.Assert(x.Segment.Start >= first.Start && x.Segment.Stop <= last.Stop, "text segment outside its block's lines")
				// document order: each text segment begins where the previous one ended, or later (no overlap)
				vp.Assert(x.Segment.Start >= *lastStart, "text segments of a block are not in document order")
				if x.Segment.Stop > *lastStart {
					*lastStart = x.Segment.Stop
				}
			}
		}
	case *ast.RawHTML:
		for i := 0; i < x.Segments.Len(); i++ {
			vp.Assert(segOK(x.Segments.At(i), len(st.src)), "raw HTML segment outside the source")
		}
	}
	if n.Type() == ast.TypeBlock {
		ls := n.Lines()
		if ls != nil {
			prevStop := 0
			for i := 0; i < ls.Len(); i++ {
				s := ls.At(i)
				vp.Assert(segOK(s, len(st.src)), "block line outside the source")
				vp.Assert(s.Padding >= 0, "negative padding in a block line")
				if i > 0 {
					vp.Assert(s.Start >= prevStop, "block lines not in increasing order")
				}
				prevStop = s.Stop
			}
			if ls.Len() > 0 {
				blk = n
				z := 0
				lastStart = &z
			}
		}
	}
	// child list consistency
	count := 0
	var prev ast.Node
	for c := n.FirstChild(); c != nil; c = c.NextSibling() {
		vp.Assert(c.PreviousSibling() == prev, "PreviousSibling disagrees with the child sequence")
		st.node(c, n, inLink, blk, lastStart)
		prev = c
		count++
		if count > 4000 {
			vp.Fail("sibling chain does not end")
			return
		}
	}
	vp.Assert(n.LastChild() == prev, "LastChild is not the last child")
	vp.Assert(n.ChildCount() == count, "ChildCount differs from the number of children")
	vp.Assert(n.HasChildren() == (count > 0), "HasChildren disagrees with the child sequence")
}

// H_c05_parse: the tree returned by Parse is well-formed with all positions inside the source.
func H_c05_parse() {
	md := WarmMD(vp.ParamStr("cfg", ""))
	src := Source()
	vp.Observe("src", src)
	doc := md.Parser().Parse(text.NewReader(src))
	st := &c05State{src: src, seen: map[ast.Node]bool{}}
	z := 0
	vp.Assert(doc.Kind() == ast.KindDocument, "root is not a Document")
	st.node(doc, nil, false, nil, &z)
	vp.Reach("done")
}

func init() { reg("H_c05_parse", H_c05_parse) }
