package h

import (
	"bytes"

	"verifh/vp"
)

// browserDecode decodes character references in an attribute value the way an HTML parser does
// (once), for the references that matter to a URL scheme: numeric ones and the named ones that can
// yield markup-significant or scheme-significant characters.
func browserDecode(v []byte) []byte {
	named := []struct {
		n string
		c byte
	}{{"amp;", '&'}, {"lt;", '<'}, {"gt;", '>'}, {"quot;", '"'}, {"apos;", '\''}, {"colon;", ':'}, {"Tab;", '\t'}, {"NewLine;", '\n'},
		{"lpar;", '('}, {"rpar;", ')'}, {"sol;", '/'}, {"period;", '.'}, {"semi;", ';'}, {"plus;", '+'}}
	var out []byte
	for i := 0; i < len(v); {
		if v[i] != '&' {
			out = append(out, v[i])
			i++
			continue
		}
		e := charRefEnd(v, i)
		if e < 0 {
			out = append(out, v[i])
			i++
			continue
		}
		if v[i+1] == '#' {
			val := 0
			if v[i+2] == 'x' || v[i+2] == 'X' {
				for j := i + 3; j < e-1; j++ {
					c := v[j]
					d := 0
					switch {
					case c >= '0' && c <= '9':
						d = int(c - '0')
					case c >= 'a' && c <= 'f':
						d = int(c-'a') + 10
					default:
						d = int(c-'A') + 10
					}
					if val < 0x110000 {
						val = val*16 + d
					}
				}
			} else {
				for j := i + 2; j < e-1; j++ {
					if val < 0x110000 {
						val = val*10 + int(v[j]-'0')
					}
				}
			}
			if val < 0x80 {
				out = append(out, byte(val))
			} else {
				out = append(out, 0xEF, 0xBF, 0xBD) // any non-ASCII character: irrelevant to a scheme
			}
			i = e
			continue
		}
		matched := false
		for _, nm := range named {
			if e-i-1 == len(nm.n) && string(v[i+1:e]) == nm.n {
				out = append(out, nm.c)
				matched = true
				break
			}
		}
		if !matched {
			out = append(out, v[i:e]...)
		}
		i = e
	}
	return out
}

// browserURL normalises a decoded attribute value the way the URL parser does before it looks for a
// scheme: leading C0-control-or-space bytes stripped, every TAB/LF/CR removed, ASCII lower-cased.
func browserURL(v []byte) []byte {
	i := 0
	for i < len(v) && v[i] <= 0x20 {
		i++
	}
	var out []byte
	for ; i < len(v); i++ {
		c := v[i]
		if c == '\t' || c == '\n' || c == '\r' {
			continue
		}
		out = append(out, vp.IteByte(vp.InRange(c, 'A', 'Z'), c|0x20, c))
	}
	return out
}

// startsWith is a branch-free prefix predicate over possibly symbolic bytes.
func startsWith(v []byte, p string) bool {
	if len(v) < len(p) {
		return false
	}
	ok := true
	for i := 0; i < len(p); i++ {
		ok = vp.And(ok, v[i] == p[i])
	}
	return ok
}

func dangerousURL(u []byte) bool {
	d := vp.Or(vp.Or(startsWith(u, "javascript:"), startsWith(u, "vbscript:")), startsWith(u, "file:"))
	img := false
	for _, t := range []string{"data:image/png;", "data:image/gif;", "data:image/jpeg;", "data:image/webp;", "data:image/svg+xml;"} {
		img = vp.Or(img, startsWith(u, t))
	}
	return vp.Or(d, vp.And(startsWith(u, "data:"), vp.Not(img)))
}

// H_c04_urls: no href/src in safe-mode output is, to a browser, a script-capable or local-file URL.
func H_c04_urls() {
	cfg := vp.ParamStr("cfg", "")
	m := WarmMD(cfg)
	src := Source()
	vp.Observe("src", src)
	var o bytes.Buffer
	e := m.Convert(src, &o)
	vp.Assert(e == nil, "conversion returned an error")
	out := o.Bytes()
	vp.Observe("out", out)
	tokQuiet = true
	toks, ok := tokenizeHTML(out)
	tokQuiet = false
	if !ok {
		return
	}
	for _, t := range toks {
		if t.Kind != tOpen {
			continue
		}
		for _, a := range t.Attrs {
			if vp.IsSymbolic(a.Name) {
				continue
			}
			nm := string(a.Name)
			if nm != "href" && nm != "src" {
				continue
			}
			vp.Reach("url")
			u := browserURL(browserDecode(a.Val))
			vp.Assert(vp.Not(dangerousURL(u)), "href/src is a javascript:, vbscript:, file: or non-image data: URL to a browser")
		}
	}
	vp.Reach("done")
}

func init() { reg("H_c04_urls", H_c04_urls) }
