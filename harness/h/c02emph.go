package h

import (
	"bytes"

	"verifh/vp"
)

// ---------------------------------------------------------------------------------------------
// C02 part C: emphasis and strong emphasis (CommonMark 6.2) against a reference implementation of the
// specification's delimiter-run rules and "process emphasis" procedure, on one-line paragraphs over
// {*, _, space, '.', ',', '!', a-z}: every byte is symbolic (the reference forks on character classes only). The reference is written from the specification text
// (left/right flanking, the can-open/can-close rules for * and _, the multiple-of-3 rule, openers
// bottom, strong before regular emphasis), independently of goldmark's parser/delimiter.go.
// ---------------------------------------------------------------------------------------------

type c02run struct {
	c                 byte
	n, orig           int
	canOpen, canClose bool
	active            bool
	closeTags         []byte // closing tags emitted on the inner (left) side, in order
	openTags          []byte // opening tags emitted on the inner (right) side, outermost first
}

type c02item struct {
	run *c02run // nil: a text byte
	b   byte
}

func c02class(b byte, edge bool) int { // 0 whitespace (and line edge), 1 punctuation, 2 other
	if edge || b == ' ' {
		return 0
	}
	if b == '*' || b == '_' || b == '.' || b == ',' || b == '!' {
		return 1
	}
	return 2
}

// c02emphasis returns the HTML CommonMark prescribes for the inline content s (no escaping needed over the alphabet).
func c02emphasis(s []byte) []byte {
	var items []c02item
	var runs []*c02run
	for i := 0; i < len(s); {
		c := s[i]
		if c != '*' && c != '_' {
			items = append(items, c02item{b: c})
			i++
			continue
		}
		if c == '*' { // a constant from here on (map keys, comparisons)
			c = '*'
		} else {
			c = '_'
		}
		j := i
		for j < len(s) && s[j] == c {
			j++
		}
		before, after := 0, 0
		if i > 0 {
			before = c02class(s[i-1], false)
		}
		if j < len(s) {
			after = c02class(s[j], false)
		}
		// left-flanking: not followed by whitespace, and (not followed by punctuation, or preceded by whitespace/punctuation)
		left := after != 0 && (after != 1 || before != 2)
		right := before != 0 && (before != 1 || after != 2)
		r := &c02run{c: c, n: j - i, orig: j - i, active: true}
		if c == '*' {
			r.canOpen, r.canClose = left, right
		} else {
			r.canOpen = left && (!right || before == 1)
			r.canClose = right && (!left || after == 1)
		}
		runs = append(runs, r)
		items = append(items, c02item{run: r})
		i = j
	}
	// process emphasis over the delimiter stack (runs, in order); inactive runs are off the stack
	// openers bottom: per delimiter character, closer length mod 3 and closer can-open
	bottom := map[[3]int]int{}
	key := func(r *c02run) [3]int {
		o := 0
		if r.canOpen {
			o = 1
		}
		return [3]int{int(r.c), r.orig % 3, o}
	}
	cur := 0
	for cur < len(runs) {
		cl := runs[cur]
		if !cl.active || !cl.canClose || cl.n == 0 {
			cur++
			continue
		}
		lo, has := bottom[key(cl)]
		if !has {
			lo = -1
		}
		found := -1
		for k := cur - 1; k > lo; k-- {
			op := runs[k]
			if !op.active || op.n == 0 || op.c != cl.c || !op.canOpen {
				continue
			}
			if (op.canClose || cl.canOpen) && (op.orig+cl.orig)%3 == 0 && !(op.orig%3 == 0 && cl.orig%3 == 0) {
				continue
			}
			found = k
			break
		}
		if found < 0 {
			bottom[key(cl)] = cur - 1
			if !cl.canOpen {
				cl.active = false
			}
			cur++
			continue
		}
		op := runs[found]
		use, open, clos := 1, "<em>", "</em>"
		if op.n >= 2 && cl.n >= 2 {
			use, open, clos = 2, "<strong>", "</strong>"
		}
		op.openTags = append([]byte(open), op.openTags...)
		cl.closeTags = append(cl.closeTags, clos...)
		op.n -= use
		cl.n -= use
		for k := found + 1; k < cur; k++ {
			runs[k].active = false
		}
		if cl.n == 0 {
			cur++
		}
	}
	var out []byte
	for _, it := range items {
		if it.run == nil {
			out = append(out, it.b)
			continue
		}
		r := it.run
		out = append(out, r.closeTags...)
		for k := 0; k < r.n; k++ {
			out = append(out, r.c)
		}
		out = append(out, r.openTags...)
	}
	return out
}

func H_c02_emph() {
	m := WarmMD("core||unsafe,xhtml")
	n := vp.ParamInt("n", 5)
	s := vp.Bytes("e", n)
	// every byte: a delimiter, a space, one of three punctuation characters, or any lower-case letter
	hasText := false
	for i := range s {
		vp.Assume(vp.Or(vp.InSet(s[i], "*_ .,!"), vp.InRange(s[i], 'a', 'z')))
		hasText = vp.Or(hasText, vp.Or(vp.InSet(s[i], ".,!"), vp.InRange(s[i], 'a', 'z')))
	}
	alphabetAssume(s) // optional restriction ("alpha") for longer lines
	// keep the line a paragraph: some text on it (no thematic break, no bare list marker), no leading or trailing
	// space, and no bullet marker "* " at its start
	vp.Assume(hasText)
	vp.Assume(s[0] != ' ')
	vp.Assume(s[n-1] != ' ')
	if n > 1 {
		vp.Assume(vp.Not(vp.And(s[0] == '*', s[1] == ' ')))
	}
	vp.Observe("src", s)
	want := append(append([]byte("<p>"), c02emphasis(s)...), "</p>\n"...)
	vp.Observe("want", want)
	var o bytes.Buffer
	e := m.Convert(s, &o)
	vp.Assert(e == nil, "conversion returned an error")
	vp.Observe("got", o.Bytes())
	vp.Assert(vp.EqBytes(o.Bytes(), want), "emphasis: rendering differs from the delimiter-run algorithm of CommonMark 6.2")
	vp.Reach("done")
}

func init() { reg("H_c02_emph", H_c02_emph) }

// ---------------------------------------------------------------------------------------------
// C02 part C': code spans (CommonMark 6.1) against a reference written from the specification:
// a backtick string of length L opens a code span closed by the next backtick string of exactly
// length L; line endings inside become spaces; one leading and one trailing space are stripped when
// both are there and the content is not all spaces; an unmatched backtick string is literal.
// One paragraph over {`, space, LF, a-z}; every byte symbolic.
// ---------------------------------------------------------------------------------------------

func c02codespans(s []byte) []byte {
	var out []byte
	n := len(s)
	for i := 0; i < n; {
		if s[i] != '`' {
			out = append(out, s[i])
			i++
			continue
		}
		j := i
		for j < n && s[j] == '`' {
			j++
		}
		L := j - i
		found := -1
		for k := j; k < n; {
			if s[k] != '`' {
				k++
				continue
			}
			m := k
			for m < n && s[m] == '`' {
				m++
			}
			if m-k == L {
				found = k
				break
			}
			k = m
		}
		if found < 0 {
			for k := 0; k < L; k++ {
				out = append(out, '`')
			}
			i = j
			continue
		}
		content := append([]byte(nil), s[j:found]...)
		allSpace := true
		for k := range content {
			if content[k] == '\n' {
				content[k] = ' '
			}
			if content[k] != ' ' {
				allSpace = false
			}
		}
		if len(content) >= 2 && content[0] == ' ' && content[len(content)-1] == ' ' && !allSpace {
			content = content[1 : len(content)-1]
		}
		out = append(append(append(out, "<code>"...), content...), "</code>"...)
		i = found + L
	}
	return out
}

func H_c02_codespan() {
	m := WarmMD("core||unsafe,xhtml")
	n := vp.ParamInt("n", 5)
	s := vp.Bytes("c", n)
	for i := range s {
		vp.Assume(vp.Or(vp.InSet(s[i], "` \n"), vp.InRange(s[i], 'a', 'z')))
	}
	alphabetAssume(s)
	// one paragraph: starts and ends with a letter or a backtick, no blank line, no line starting or ending with a
	// space (leading spaces are stripped and trailing ones are hard breaks - both outside this reference), no line
	// starting with three backticks (a fence)
	vp.Assume(vp.Not(vp.InSet(s[0], " \n")))
	vp.Assume(vp.Not(vp.InSet(s[n-1], " \n")))
	for i := 0; i+1 < n; i++ {
		vp.Assume(vp.Not(vp.And(s[i] == '\n', vp.InSet(s[i+1], " \n"))))
		vp.Assume(vp.Not(vp.And(s[i] == ' ', s[i+1] == '\n')))
	}
	for i := 0; i+2 < n; i++ {
		if i == 0 {
			vp.Assume(vp.Not(vp.And(s[0] == '`', vp.And(s[1] == '`', s[2] == '`'))))
		} else {
			vp.Assume(vp.Not(vp.And(s[i-1] == '\n', vp.And(s[i] == '`', vp.And(s[i+1] == '`', s[i+2] == '`')))))
		}
	}
	vp.Observe("src", s)
	want := append(append([]byte("<p>"), c02codespans(s)...), "</p>\n"...)
	vp.Observe("want", want)
	var o bytes.Buffer
	e := m.Convert(s, &o)
	vp.Assert(e == nil, "conversion returned an error")
	vp.Observe("got", o.Bytes())
	vp.Assert(vp.EqBytes(o.Bytes(), want), "code span: rendering differs from CommonMark 6.1")
	vp.Reach("done")
}

func init() { reg("H_c02_codespan", H_c02_codespan) }
