package h

import (
	"unicode/utf8"

	"github.com/yuin/goldmark/text"
	"github.com/yuin/goldmark/util"
	"verifh/vp"
)

// C18: Reader / BlockReader against a flattened-view oracle.
//
// The oracle never re-implements the cursor: for a position (line, segment) reported by
// Position() it computes the *remaining view* V = segment value followed by the values of all
// later lines, directly from the source (and, for a BlockReader, from the segment list the
// harness built). Each operation is specified as a relation between V before and V after.

type c18Env struct {
	src   []byte
	block bool
	segs  []text.Segment // block reader: its lines
	r     text.Reader
}

func spaces(n int) []byte {
	b := make([]byte, n)
	for i := range b {
		b[i] = ' '
	}
	return b
}

func (e *c18Env) eof(line int, seg text.Segment) bool {
	if e.block {
		return line >= len(e.segs) || seg.Start < 0 || seg.Start >= e.segs[len(e.segs)-1].Stop
	}
	return seg.Start < 0 || seg.Start >= len(e.src)
}

// view is the flattened remaining view at a position.
func (e *c18Env) view(line int, seg text.Segment) []byte {
	if e.eof(line, seg) {
		return nil
	}
	if !e.block {
		return append(spaces(seg.Padding), e.src[seg.Start:]...)
	}
	v := append([]byte{}, seg.Value(e.src)...)
	for i := line + 1; i < len(e.segs); i++ {
		v = append(v, e.segs[i].Value(e.src)...)
	}
	return v
}

func (e *c18Env) cur() []byte {
	l, s := e.r.Position()
	return e.view(l, s)
}

func expandCols(b []byte) int {
	v := 0
	for _, c := range b {
		if c == '\t' {
			v += 4 - v%4
		} else {
			v++
		}
	}
	return v
}

// check asserts the per-state clauses of the property.
func (e *c18Env) check(tag string) {
	line, seg := e.r.Position()
	pl, pseg := e.r.PeekLine()
	pk := e.r.Peek()
	if e.eof(line, seg) {
		vp.Assert(pl == nil, tag+": PeekLine not nil at end of input")
		vp.Assert(pk == text.EOF, tag+": Peek not EOF at end of input")
		return
	}
	vp.Assert(seg.Start >= 0, tag+": position Start negative")
	vp.Assert(seg.Start <= seg.Stop, tag+": position Start > Stop")
	vp.Assert(seg.Stop <= len(e.src), tag+": position Stop beyond the source")
	vp.Assert(seg.Padding >= 0, tag+": negative padding")
	if seg.Start > seg.Stop || seg.Stop > len(e.src) || seg.Padding < 0 || seg.Padding > 8 {
		return
	}
	vp.Assert(pseg == seg, tag+": PeekLine segment differs from Position")
	want := append(spaces(seg.Padding), e.src[seg.Start:seg.Stop]...)
	vp.Assert(vp.EqBytes(pl, want), tag+": PeekLine is not the segment's bytes with padding first")
	if len(want) > 0 {
		vp.Assert(pk == want[0], tag+": Peek is not the first byte of the view")
	}
	// Stop is the end of the current line
	head := 0
	if e.block {
		vp.Assert(seg.Stop == e.segs[line].Stop, tag+": position does not end at its line's end")
		head = e.segs[line].Start
	} else {
		if seg.Stop < len(e.src) {
			vp.Assert(seg.Stop > 0 && e.src[seg.Stop-1] == '\n', tag+": position does not end at a line end")
		}
		for i := seg.Start; i < seg.Stop-1; i++ {
			vp.Assert(e.src[i] != '\n', tag+": position spans a line break")
		}
		for i := seg.Start - 1; i >= 0; i-- {
			if e.src[i] == '\n' {
				head = i + 1
				break
			}
		}
	}
	if head <= seg.Start {
		vp.Assert(e.r.LineOffset() == expandCols(e.src[head:seg.Start])-seg.Padding, tag+": LineOffset is not the tab-expanded column")
	}
	if !e.block {
		vp.Assert(vp.EqBytes(e.r.Value(seg), seg.Value(e.src)), tag+": Value(seg) differs from the segment's own value")
	}
}

func trimLeftSpaces(b []byte) []byte {
	for len(b) > 0 && util.IsSpace(b[0]) {
		b = b[1:]
	}
	return b
}

type c18Mark struct {
	ok    bool
	line  int
	seg   text.Segment
	view  []byte
	peek  byte
	lineo int
	pl    []byte
}

// step performs one solver-chosen reader call and asserts its specification.
func (e *c18Env) step(mark *c18Mark, nops int) {
	op := vp.Concrete(vp.IntRange("op", 0, nops-1))
	before := e.cur()
	bl, bs := e.r.Position()
	switch op {
	case 0: // Advance(n), n no larger than what remains
		n := vp.Concrete(vp.IntRange("n", 0, len(before)))
		e.r.Advance(n)
		vp.Assert(vp.EqBytes(e.cur(), before[n:]), "Advance(n) did not move exactly n bytes of the view")
		vp.Reach("advance")
	case 1: // AdvanceLine
		pl, _ := e.r.PeekLine()
		e.r.AdvanceLine()
		if pl != nil {
			vp.Assert(vp.EqBytes(e.cur(), before[len(pl):]), "AdvanceLine did not move to the next line head")
		}
		vp.Reach("advance-line")
	case 2: // Position ... SetPosition
		if !mark.ok {
			mark.ok = true
			mark.line, mark.seg = e.r.Position()
			mark.view = before
			mark.peek = e.r.Peek()
			mark.pl, _ = e.r.PeekLine()
			if !e.eof(mark.line, mark.seg) {
				mark.lineo = e.r.LineOffset()
			}
		} else {
			e.r.SetPosition(mark.line, mark.seg)
			vp.Assert(vp.EqBytes(e.cur(), mark.view), "SetPosition did not restore the recorded view")
			pl, _ := e.r.PeekLine()
			vp.Assert(vp.EqBytes(pl, mark.pl), "PeekLine after SetPosition differs from the one seen at Position")
			vp.Assert((pl == nil) == (mark.pl == nil), "PeekLine nil-ness after SetPosition differs")
			vp.Assert(e.r.Peek() == mark.peek, "Peek after SetPosition differs from the one seen at Position")
			if !e.eof(mark.line, mark.seg) {
				vp.Assert(e.r.LineOffset() == mark.lineo, "LineOffset after SetPosition differs from the one seen at Position")
			}
			vp.Reach("set-position")
		}
	case 3: // SetPadding
		if e.eof(bl, bs) {
			return
		}
		v := vp.Concrete(vp.IntRange("pad", 0, 3))
		e.r.SetPadding(v)
		_, s := e.r.Position()
		vp.Assert(s.Padding == v && s.Start == bs.Start && s.Stop == bs.Stop, "SetPadding changed more than the padding")
		vp.Reach("set-padding")
	case 4: // SkipSpaces
		e.r.SkipSpaces()
		vp.Assert(vp.EqBytes(e.cur(), trimLeftSpaces(before)), "SkipSpaces did not stop at the first non-space byte of the view")
		vp.Reach("skip-spaces")
	case 5: // ReadRune
		pl, _ := e.r.PeekLine()
		_, size, err := e.r.ReadRune()
		if err != nil {
			vp.Assert(size == 0, "ReadRune error with non-zero size")
			vp.Assert(vp.EqBytes(e.cur(), before), "ReadRune moved although it returned an error")
		} else {
			_, want := utf8.DecodeRune(pl)
			vp.Assert(size == want, "ReadRune size differs from utf8.DecodeRune")
			vp.Assert(vp.EqBytes(e.cur(), before[size:]), "ReadRune did not advance by the rune size")
		}
		vp.Reach("read-rune")
	case 6: // FindClosure without Advance leaves the position untouched
		o := vp.Concrete(vp.IntRange("fc", 0, 7))
		opts := text.FindClosureOptions{CodeSpan: o&1 != 0, Nesting: o&2 != 0, Newline: o&4 != 0, Advance: false}
		e.r.FindClosure('[', ']', opts)
		l2, s2 := e.r.Position()
		vp.Assert(l2 == bl && s2 == bs, "FindClosure without Advance moved the position")
		vp.Assert(vp.EqBytes(e.cur(), before), "FindClosure without Advance changed the view")
		vp.Reach("find-closure")
	case 7: // AdvanceAndSetPadding
		n := vp.Concrete(vp.IntRange("n", 0, len(before)))
		p := vp.Concrete(vp.IntRange("pad", 0, 2))
		e.r.AdvanceAndSetPadding(n, p)
		after := e.cur()
		rest := before[n:]
		// the view is the advanced view, possibly with extra virtual spaces in front
		vp.Assert(len(after) >= len(rest) && vp.EqBytes(after[len(after)-len(rest):], rest), "AdvanceAndSetPadding lost bytes of the view")
		vp.Reach("advance-pad")
	case 8: // SkipBlankLines
		e.r.SkipBlankLines()
		after := e.cur()
		vp.Assert(len(after) <= len(before) && vp.EqBytes(after, before[len(before)-len(after):]), "SkipBlankLines view is not a suffix of the previous view")
		dropped := before[:len(before)-len(after)]
		vp.Assert(util.IsBlank(dropped), "SkipBlankLines skipped a non-blank byte")
		vp.Reach("skip-blank")
	case 9: // FindClosure with Advance: only the per-state clauses are checked afterwards
		o := vp.Concrete(vp.IntRange("fc", 0, 7))
		opts := text.FindClosureOptions{CodeSpan: o&1 != 0, Nesting: o&2 != 0, Newline: o&4 != 0, Advance: true}
		e.r.FindClosure('[', ']', opts)
		e.r.PrecendingCharacter()
	}
	e.check("after call")
}

func c18Src() []byte {
	n := vp.ParamInt("n", 3)
	src := vp.Bytes("s", n)
	alpha := vp.ParamStr("alpha", "a \t\n\r\xc3\xa9[]`\\")
	for i := range src {
		vp.Assume(vp.InSet(src[i], alpha))
	}
	vp.Observe("src", src)
	return src
}

// H_c18_reader: histories of k calls on the source reader.
func H_c18_reader() {
	src := c18Src()
	e := &c18Env{src: src, r: text.NewReader(src)}
	e.check("initial")
	k := vp.ParamInt("k", 2)
	var mark c18Mark
	for i := 0; i < k; i++ {
		e.step(&mark, vp.ParamInt("nops", 10))
	}
	vp.Reach("done")
}

// H_c18_block: histories of k calls on a BlockReader over solver-chosen line sub-ranges with padding.
func H_c18_block() {
	src := c18Src()
	// physical lines
	var lines []text.Segment
	start := 0
	for i := range src {
		if src[i] == '\n' {
			lines = append(lines, text.NewSegment(start, i+1))
			start = i + 1
		}
	}
	if start < len(src) {
		lines = append(lines, text.NewSegment(start, len(src)))
	}
	if len(lines) == 0 {
		return
	}
	first := vp.Concrete(vp.IntRange("first", 0, len(lines)-1))
	segs := text.NewSegments()
	var list []text.Segment
	for i := first; i < len(lines); i++ {
		s := lines[i]
		if i-first < 2 {
			if s.Stop-s.Start > 1 {
				s.Start += vp.Concrete(vp.IntRange("skip", 0, 1))
			}
			s.Padding = vp.Concrete(vp.IntRange("segpad", 0, 2))
			// a line segment need not end with its newline (right-trimmed lines, cells cut out of a line): with
			// cut=1 the segment stops one byte early, leaving a gap in front of the next segment
			if vp.ParamInt("cut", 0) == 1 && i+1 < len(lines) && s.Stop-s.Start > 1 {
				s.Stop -= vp.Concrete(vp.IntRange("cut", 0, 1))
			}
		}
		segs.Append(s)
		list = append(list, s)
	}
	e := &c18Env{src: src, block: true, segs: list, r: text.NewBlockReader(src, segs)}
	e.check("initial")
	k := vp.ParamInt("k", 2)
	var mark c18Mark
	for i := 0; i < k; i++ {
		e.step(&mark, vp.ParamInt("nops", 10))
	}
	vp.Reach("done")
}

// H_c18_segment: Segment value arithmetic on symbolic buffers.
func H_c18_segment() {
	n := vp.ParamInt("n", 4)
	buf := vp.Bytes("s", n)
	alpha := vp.ParamStr("alpha", "a \t\n")
	for i := range buf {
		vp.Assume(vp.InSet(buf[i], alpha))
	}
	vp.Observe("src", buf)
	start := vp.Concrete(vp.IntRange("start", 0, n))
	stop := vp.Concrete(vp.IntRange("stop", start, n))
	pad := vp.Concrete(vp.IntRange("pad", 0, 3))
	seg := text.NewSegmentPadding(start, stop, pad)
	val := seg.Value(buf)
	vp.Assert(vp.EqBytes(val, append(spaces(pad), buf[start:stop]...)), "Value is not padding spaces followed by the bytes")
	vp.Assert(seg.Len() == len(val), "Len differs from len(Value)")
	vp.Assert(seg.IsEmpty() == (len(val) == 0), "IsEmpty disagrees with Value")
	// TrimLeftSpace: value is the old value without its leading spaces
	tl := seg.TrimLeftSpace(buf)
	vp.Assert(vp.EqBytes(tl.Value(buf), trimLeftSpaces(val)), "TrimLeftSpace value is not the value without leading spaces")
	// TrimRightSpace
	tr := seg.TrimRightSpace(buf)
	want := val
	for len(want) > 0 && util.IsSpace(want[len(want)-1]) {
		want = want[:len(want)-1]
	}
	if len(trimLeftSpaces(buf[start:stop])) > 0 {
		vp.Assert(vp.EqBytes(tr.Value(buf), want), "TrimRightSpace value is not the value without trailing spaces")
	} else {
		vp.Assert(tr.Stop-tr.Start == 0, "TrimRightSpace of an all-space segment keeps bytes")
	}
	// WithStart / WithStop
	ws := seg.WithStop(start)
	vp.Assert(ws.Start == start && ws.Stop == start && ws.Padding == pad, "WithStop changed other fields")
	// Between: t.Between(other) covers exactly what lies before other inside t
	cut := vp.Concrete(vp.IntRange("cut", start, stop))
	other := text.NewSegment(cut, stop)
	bt := seg.Between(other)
	vp.Assert(vp.EqBytes(append(append([]byte{}, bt.Value(buf)...), other.Value(buf)...), val), "Between + other does not reassemble the segment")
	// ConcatPadding
	vp.Assert(vp.EqBytes(seg.ConcatPadding([]byte("x")), append([]byte("x"), spaces(pad)...)), "ConcatPadding wrong")
	// TrimLeftSpaceWidth: removes exactly min(width, available) columns of leading white space
	w := vp.Concrete(vp.IntRange("width", 0, 5))
	tw := seg.TrimLeftSpaceWidth(w, buf)
	vp.Assert(tw.Start >= start && tw.Start <= stop && tw.Stop == stop && tw.Padding >= 0, "TrimLeftSpaceWidth position outside the segment")
	vp.Reach("done")
}

func init() {
	reg("H_c18_reader", H_c18_reader)
	reg("H_c18_block", H_c18_block)
	reg("H_c18_segment", H_c18_segment)
}
