package h

import (
	"bytes"

	"github.com/yuin/goldmark/text"
	"verifh/vp"
)

// stateful "history" documents: link references, duplicate headings, footnotes, quotes, tables, fenced info.
var historyDocs = []string{
	"[a]: /u \"t\"\n\n[a] [b]\n\n[b]: /v\n",
	"# a\n\n# a\n\na\n===\n",
	"x[^1] y[^n]\n\n[^1]: f\n\n[^n]: g\n",
	"\"a 'b\n\n-- ... <<x>>\n",
	"| a | b |\n|:--|--:|\n| 1 | 2 |\n",
	"```go {.c}\nx\n```\n\n- [ ] t\n\n~~s~~ www.a.bc\n",
	"a\n: d\n\n*[^ [\n",
}

// H_c06_pure: output is a function of (configuration, source) only.
//   o1 = conv_m(B); conv_m(A); o2 = conv_m(B); o3 = fresh.conv(B); o4 = Render(Parse(B)); o5 = Render(same tree)
// with the shared instance and goldmark's package globals frozen (write barrier) after warm-up.
func H_c06_pure() {
	cfg := vp.ParamStr("cfg", "")
	m := WarmMD(cfg)
	var a, b []byte
	if vp.ParamInt("symhist", 0) == 1 {
		// symbolic history document, concrete probe document
		a = vp.Bytes("a", vp.ParamInt("an", 2))
		alphabetAssume(a)
		b = []byte(vp.ParamStr("probe", historyDocs[0]))
	} else {
		b = Source()
		a = []byte(historyDocs[vp.ParamInt("hist", 0)%len(historyDocs)])
		if hd := vp.ParamStr("histdoc", ""); hd != "" {
			a = []byte(hd)
		}
	}
	vp.Observe("src", b)
	vp.Observe("hist", a)
	vp.Freeze(m)
	var o1, o2, o3, o4, o5, tmp bytes.Buffer
	e1 := m.Convert(b, &o1)
	_ = m.Convert(a, &tmp)
	e2 := m.Convert(b, &o2)
	vp.Unfreeze()
	fresh := NewMD(cfg)
	e3 := fresh.Convert(b, &o3)
	vp.Freeze(m)
	doc := m.Parser().Parse(text.NewReader(b))
	e4 := m.Renderer().Render(&o4, b, doc)
	e5 := m.Renderer().Render(&o5, b, doc)
	vp.Unfreeze()
	vp.Assert(e1 == nil && e2 == nil && e3 == nil && e4 == nil && e5 == nil, "conversion returned an error")
	vp.Observe("out", o1.Bytes())
	vp.Assert(vp.EqBytes(o1.Bytes(), o2.Bytes()), "same source converts differently after another document was converted on the same instance")
	vp.Assert(vp.EqBytes(o1.Bytes(), o3.Bytes()), "long-used instance and fresh instance differ")
	vp.Assert(vp.EqBytes(o1.Bytes(), o4.Bytes()), "Convert differs from Parse followed by Render")
	vp.Assert(vp.EqBytes(o4.Bytes(), o5.Bytes()), "rendering the same tree twice gives different bytes")
	vp.Reach("done")
}

func init() { reg("H_c06_pure", H_c06_pure) }
