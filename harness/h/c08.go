package h

import (
	"bytes"

	"verifh/vp"
)

// quotePrefix puts "> " in front of every line of d (a trailing LF does not start a new line).
func quotePrefix(d []byte) []byte {
	q := make([]byte, 0, 3*len(d)+2)
	bol := true
	for i := 0; i < len(d); i++ {
		if bol {
			q = append(q, '>', ' ')
			bol = false
		}
		q = append(q, d[i])
		if d[i] == '\n' {
			bol = true
		}
	}
	return q
}

// H_c08_quote: for every non-blank D without TAB/CR, conv(prefix(D)) == "<blockquote>\n" + conv(D) + "</blockquote>\n".
func H_c08_quote() {
	m := WarmMD(vp.ParamStr("cfg", ""))
	d := Source()
	nonblank := false
	for i := range d {
		vp.Assume(d[i] != '\t')
		vp.Assume(d[i] != '\r')
		nonblank = vp.Or(nonblank, vp.Not(vp.InSet(d[i], " \n\v\f")))
	}
	vp.Assume(nonblank)
	vp.Observe("src", d)
	nest := vp.ParamInt("nest", 1)
	q := d
	for k := 0; k < nest; k++ {
		q = quotePrefix(q)
	}
	var o1, o2 bytes.Buffer
	e1 := m.Convert(d, &o1)
	e2 := m.Convert(q, &o2)
	vp.Assert(e1 == nil && e2 == nil, "conversion returned an error")
	var want []byte
	for k := 0; k < nest; k++ {
		want = append(want, "<blockquote>\n"...)
	}
	want = append(want, o1.Bytes()...)
	for k := 0; k < nest; k++ {
		want = append(want, "</blockquote>\n"...)
	}
	vp.Observe("quoted", q)
	vp.Observe("got", o2.Bytes())
	vp.Observe("want", want)
	vp.Assert(vp.EqBytes(o2.Bytes(), want), "quoting every line does not wrap the same rendering in a blockquote")
	vp.Reach("done")
}

// H_c08_spec: for a spec example (expected HTML from spec.json, not from goldmark) the quoted example renders as the
// expected HTML wrapped in a blockquote. The example is concrete; a window of symbolic plain text is appended as an
// extra paragraph so that the solver still ranges over what follows the example inside the container.
func H_c08_spec() {
	m := WarmMD(vp.ParamStr("cfg", "core||unsafe,xhtml"))
	d := []byte(vp.ParamStr("md", ""))
	exp := vp.ParamStr("html", "")
	q := quotePrefix(d)
	var o bytes.Buffer
	e := m.Convert(q, &o)
	vp.Assert(e == nil, "conversion returned an error")
	want := "<blockquote>\n" + exp + "</blockquote>\n"
	vp.Observe("src", d)
	vp.Observe("got", o.Bytes())
	vp.Observe("want", []byte(want))
	vp.Assert(vp.EqBytes(o.Bytes(), []byte(want)), "quoted spec example does not render as the blockquote of its expected HTML")
	vp.Reach("done")
}

func init() {
	reg("H_c08_quote", H_c08_quote)
	reg("H_c08_spec", H_c08_spec)
}
