package h

import (
	"bytes"

	"github.com/yuin/goldmark/text"
	"github.com/yuin/goldmark/util"
	"verifh/vp"
)

// roSource returns the symbolic source placed in a buffer with spare capacity holding sentinel
// bytes, the whole buffer (source and spare capacity) under the read-only write barrier.
func roSource() ([]byte, []byte) {
	src := Source()
	n := len(src)
	full := make([]byte, n, n+8)
	copy(full, src)
	spare := full[n : n+8]
	for i := range spare {
		spare[i] = 0xEE
	}
	keep := append([]byte(nil), full...)
	vp.ReadOnly(full)
	return full, keep
}

// H_c12_convert: no store is ever attempted on the caller's source (nor on spare capacity
// behind it), and its bytes are unchanged after Convert and after Parse+Render.
func H_c12_convert() {
	md := WarmMD(vp.ParamStr("cfg", ""))
	src, keep := roSource()
	vp.Observe("src", src)
	var buf bytes.Buffer
	_ = md.Convert(src, &buf)
	vp.Assert(vp.EqBytes(src, keep), "source bytes changed by Convert")
	vp.Assert(vp.EqBytes(src[:cap(src)][len(src):], []byte{0xEE, 0xEE, 0xEE, 0xEE, 0xEE, 0xEE, 0xEE, 0xEE}), "bytes behind the source (spare capacity) changed by Convert")
	doc := md.Parser().Parse(text.NewReader(src))
	var buf2 bytes.Buffer
	_ = md.Renderer().Render(&buf2, src, doc)
	vp.Assert(vp.EqBytes(src, keep), "source bytes changed by Parse+Render")
	vp.Reach("done")
}

// H_c12_util: exported util transformers never modify (or attempt to write) their argument.
func H_c12_util() {
	n := vp.ParamInt("n", 3)
	in := vp.Bytes("in", n)
	alphabetAssume(in)
	full := make([]byte, n, n+4)
	copy(full, in)
	for i := n; i < n+4; i++ {
		full[:n+4][i] = 0xEE
	}
	keep := append([]byte(nil), full[:n+4]...)
	vp.ReadOnly(full)
	vp.Observe("in", full)
	fn := vp.Concrete(vp.IntRange("fn", 0, 13))
	switch fn {
	case 0:
		util.EscapeHTML(full)
	case 1:
		util.UnescapePunctuations(full)
	case 2:
		util.ResolveNumericReferences(full)
	case 3:
		util.ResolveEntityNames(full)
	case 4:
		util.URLEscape(full, false)
	case 5:
		util.URLEscape(full, true)
	case 6:
		util.DoFullUnicodeCaseFolding(full)
	case 7:
		util.ReplaceSpaces(full, ' ')
	case 8:
		util.ToLinkReference(full)
	case 9:
		util.TrimLeft(full, []byte(" a"))
		util.TrimRight(full, []byte(" a"))
	case 10:
		util.TrimLeftSpace(full)
		util.TrimRightSpace(full)
	case 11:
		util.IsBlank(full)
		util.FirstNonSpacePosition(full)
	case 12:
		b := util.StringToReadOnlyBytes(string(full))
		_ = util.BytesToReadOnlyString(b)
		util.EscapeHTML(b)
		util.URLEscape(b, true)
	case 13:
		util.FindURLIndex(full)
		util.FindEmailIndex(full)
	}
	vp.Assert(vp.EqBytes(full, keep[:n]), "util function modified its argument")
	vp.Assert(vp.EqBytes(full[:n+4][n:], keep[n:]), "util function wrote behind its argument")
	vp.Reach("done")
}

func init() {
	reg("H_c12_convert", H_c12_convert)
	reg("H_c12_util", H_c12_util)
}
