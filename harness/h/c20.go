package h

import (
	"bytes"

	"github.com/yuin/goldmark"
	"github.com/yuin/goldmark/ast"
	"github.com/yuin/goldmark/parser"
	"github.com/yuin/goldmark/renderer"
	"github.com/yuin/goldmark/text"
	"github.com/yuin/goldmark/util"
	"verifh/vp"
)

// Probe components: each appends its identity to a log when goldmark consults it.
var c20Block, c20Inline, c20PT, c20AT []int

var kindProbe = ast.NewNodeKind("VerifProbe")
var kindNoRenderer = ast.NewNodeKind("VerifNoRenderer") // never given a renderer function

type probeNode struct {
	ast.BaseBlock
	kind ast.NodeKind
	id   int
}

func (n *probeNode) Kind() ast.NodeKind         { return n.kind }
func (n *probeNode) Dump(src []byte, level int) {}

// trigger bytes of the probes (parameters "trig" / "itrig"; default '@' and '%'). Bytes >= 0x80 and DEL are
// legitimate triggers: the dispatch tables are indexed by the raw byte.
var c20Trig, c20ITrig byte = '@', '%'

type probeBlock struct {
	id     int
	trig   []byte
	accept bool
}

func (p *probeBlock) Trigger() []byte { return p.trig }
func (p *probeBlock) Open(parent ast.Node, reader text.Reader, pc parser.Context) (ast.Node, parser.State) {
	c20Block = append(c20Block, p.id)
	line, seg := reader.PeekLine()
	if !p.accept || len(line) == 0 || line[0] != c20Trig {
		return nil, parser.NoChildren
	}
	n := seg.Len()
	if len(line) > 0 && line[len(line)-1] == '\n' {
		n--
	}
	reader.Advance(n)
	return &probeNode{kind: kindProbe, id: p.id}, parser.NoChildren
}
func (p *probeBlock) Continue(node ast.Node, reader text.Reader, pc parser.Context) parser.State {
	return parser.Close
}
func (p *probeBlock) Close(node ast.Node, reader text.Reader, pc parser.Context) {}
func (p *probeBlock) CanInterruptParagraph() bool                                { return true }
func (p *probeBlock) CanAcceptIndentedLine() bool                                { return false }

type probeInline struct {
	id     int
	accept bool
}

func (p *probeInline) Trigger() []byte { return []byte{c20ITrig} }
func (p *probeInline) Parse(parent ast.Node, block text.Reader, pc parser.Context) ast.Node {
	c20Inline = append(c20Inline, p.id)
	if !p.accept {
		return nil
	}
	block.Advance(1)
	return ast.NewString([]byte{'I', byte('0' + p.id)})
}

type probePT struct{ id int }

func (p *probePT) Transform(node *ast.Paragraph, reader text.Reader, pc parser.Context) {
	// identity and what the transformer sees: the number of lines left in the paragraph tells whether the
	// built-in link-reference transformer (priority 100) has already run
	c20PT = append(c20PT, p.id*10+node.Lines().Len())
}

type probeAT struct{ id int }

func (p *probeAT) Transform(node *ast.Document, reader text.Reader, pc parser.Context) {
	c20AT = append(c20AT, p.id)
}

type probeNR struct{ id int }

func (p *probeNR) RegisterFuncs(reg renderer.NodeRendererFuncRegisterer) {
	f := func(w util.BufWriter, source []byte, n ast.Node, entering bool) (ast.WalkStatus, error) {
		if entering {
			_, _ = w.Write([]byte{'R', byte('0' + p.id), ';'})
		}
		return ast.WalkContinue, nil
	}
	reg.Register(ast.KindThematicBreak, f)
	reg.Register(kindProbe, f)
}

type probeExt struct {
	popts []parser.Option
	ropts []renderer.Option
}

func (e *probeExt) Extend(m goldmark.Markdown) {
	m.Parser().AddOptions(e.popts...)
	m.Renderer().AddOptions(e.ropts...)
}

// perm returns the k-th permutation (factoradic) of 0..n-1.
func perm(n, k int) []int {
	items := make([]int, n)
	for i := range items {
		items[i] = i
	}
	var out []int
	for i := n; i > 0; i-- {
		f := 1
		for j := 2; j < i; j++ {
			f *= j
		}
		idx := (k / f) % i
		k %= f
		out = append(out, items[idx])
		items = append(items[:idx], items[idx+1:]...)
	}
	return out
}

// prios returns n symbolic priorities in [1,1999], pairwise distinct and different from 1000 (the
// priority of the built-in paragraph parser and of the built-in HTML renderer).
func prios(name string, n int) []int {
	ps := make([]int, n)
	for i := range ps {
		ps[i] = vp.Int(name + string(rune('0'+i)))
		if vp.ParamInt("wide", 0) == 0 {
			vp.Assume(vp.And(ps[i] >= 1, ps[i] <= 1999))
		} // wide: any 64-bit integer, negative ones and differences beyond MaxInt included
		vp.Assume(ps[i] != 1000)
		for j := 0; j < i; j++ {
			vp.Assume(ps[i] != ps[j])
		}
	}
	return ps
}

// build registers the components in the given order through the given route.
//   route 0: goldmark.WithParserOptions / WithRendererOptions, one option per component
//   route 1: one Extender holding everything (AddOptions from Extend)
//   route 2: alternating: even positions as options of New, odd positions through an Extender
func build(popts []parser.Option, ropts []renderer.Option, order []int, route int) goldmark.Markdown {
	var opts []goldmark.Option
	ext := &probeExt{}
	n := len(popts) + len(ropts)
	for pos := 0; pos < n; pos++ {
		i := order[pos%len(order)]
		if len(order) != n {
			i = pos
		}
		viaExt := route == 1 || (route == 2 && pos%2 == 1)
		if i < len(popts) {
			if viaExt {
				ext.popts = append(ext.popts, popts[i])
			} else {
				opts = append(opts, goldmark.WithParserOptions(popts[i]))
			}
		} else {
			if viaExt {
				ext.ropts = append(ext.ropts, ropts[i-len(popts)])
			} else {
				opts = append(opts, goldmark.WithRendererOptions(ropts[i-len(popts)]))
			}
		}
	}
	opts = append(opts, goldmark.WithExtensions(ext))
	return goldmark.New(opts...)
}

func sortedBy(ids []int, pr []int) []int {
	out := append([]int(nil), ids...)
	for i := 1; i < len(out); i++ {
		for j := i; j > 0 && pr[out[j]] < pr[out[j-1]]; j-- {
			out[j], out[j-1] = out[j-1], out[j]
		}
	}
	return out
}

func eqInts(a, b []int) bool {
	if len(a) != len(b) {
		return false
	}
	for i := range a {
		if a[i] != b[i] {
			return false
		}
	}
	return true
}

// H_c20_block: block parsers for one trigger are tried in ascending priority, trigger-less ones after
// them (ascending, the built-in paragraph parser at 1000 among them), the first to accept wins.
func H_c20_block() {
	nt, nf := vp.ParamInt("nt", 2), vp.ParamInt("nf", 1)
	n := nt + nf
	c20Trig = byte(vp.ParamInt("trig", '@'))
	T := c20Trig
	pr := prios("p", n)
	acc := vp.Concrete(vp.IntRange("acc", -1, n-1)) // which probe accepts (-1: none)
	var popts []parser.Option
	for i := 0; i < n; i++ {
		var trig []byte
		if i < nt {
			trig = []byte{T}
		}
		popts = append(popts, parser.WithBlockParsers(util.Prioritized(&probeBlock{id: i, trig: trig, accept: i == acc}, pr[i])))
	}
	m := build(popts, nil, perm(n, vp.ParamInt("order", 0)), vp.ParamInt("route", 0))
	c20Block = nil
	// doc 0: the probes' line opens the document; doc 1: it follows a paragraph line (only parsers that can
	// interrupt a paragraph are tried — the probes can, the built-in paragraph parser cannot); doc 2: the same
	// inside a block quote
	docs := []string{string([]byte{T}) + "x\n", "a\n" + string([]byte{T}) + "x\n", "> a\n> " + string([]byte{T}) + "x\n"}
	dv := vp.ParamInt("doc", 0)
	var o bytes.Buffer
	e := m.Convert([]byte(docs[dv]), &o)
	vp.Assert(e == nil, "conversion returned an error")
	// model: line by line, as the property states it
	var trigIDs, freeIDs []int
	for i := 0; i < n; i++ {
		if i < nt {
			trigIDs = append(trigIDs, i)
		} else {
			freeIDs = append(freeIDs, i)
		}
	}
	trigSorted, freeSorted := sortedBy(trigIDs, pr), sortedBy(freeIDs, pr)
	var want []int
	lines := []byte{T}
	if dv > 0 {
		lines = []byte{'a', T}
	}
	paraOpen := false
	accepted := false
	for _, first := range lines {
		opened := false
		// parsers on the line's first byte, then the trigger-less ones; a byte nobody triggers on sees only the latter
		var list []int
		if first == T && nt > 0 {
			list = append(list, trigSorted...)
		}
		// the built-in paragraph parser sits at 1000 among the trigger-less parsers
		paraPlaced := false
		for _, id := range freeSorted {
			if !paraPlaced && pr[id] > 1000 {
				list = append(list, -1)
				paraPlaced = true
			}
			list = append(list, id)
		}
		if !paraPlaced {
			list = append(list, -1)
		}
		for _, id := range list {
			if opened {
				break
			}
			if id == -1 {
				if !paraOpen { // cannot interrupt a paragraph; otherwise accepts every line
					opened, paraOpen = true, true
				}
				continue
			}
			want = append(want, id)
			if id == acc && first == T {
				opened, paraOpen, accepted = true, false, true
			}
		}
	}
	vp.Assert(eqInts(c20Block, want), "block parsers were not tried in ascending priority (triggered first, then trigger-less) up to the first acceptor")
	if accepted {
		vp.Assert(!bytes.Contains(o.Bytes(), []byte{T, 'x'}), "the accepting probe's line was rendered as text")
	}
	vp.Reach("done")
}

// H_c20_inline: inline parsers on one trigger are tried in ascending priority, first acceptor wins.
func H_c20_inline() {
	n := vp.ParamInt("n", 3)
	c20ITrig = byte(vp.ParamInt("itrig", '%'))
	pr := prios("p", n)
	acc := vp.Concrete(vp.IntRange("acc", -1, n-1))
	var popts []parser.Option
	for i := 0; i < n; i++ {
		popts = append(popts, parser.WithInlineParsers(util.Prioritized(&probeInline{id: i, accept: i == acc}, pr[i])))
	}
	m := build(popts, nil, perm(n, vp.ParamInt("order", 0)), vp.ParamInt("route", 0))
	c20Inline = nil
	var o bytes.Buffer
	e := m.Convert([]byte{'a', c20ITrig, 'b', '\n'}, &o)
	vp.Assert(e == nil, "conversion returned an error")
	ids := make([]int, n)
	for i := range ids {
		ids[i] = i
	}
	var want []int
	done := false
	for _, id := range sortedBy(ids, pr) {
		if !done {
			want = append(want, id)
			done = id == acc
		}
	}
	vp.Assert(eqInts(c20Inline, want), "inline parsers were not tried in ascending priority up to the first acceptor")
	if acc >= 0 {
		vp.Assert(bytes.Equal(o.Bytes(), []byte{'<', 'p', '>', 'a', 'I', byte('0' + acc), 'b', '<', '/', 'p', '>', '\n'}), "the accepting inline parser's node is not what was rendered")
	}
	vp.Reach("done")
}

// H_c20_transformers: paragraph transformers and AST transformers run in ascending priority.
func H_c20_transformers() {
	n := vp.ParamInt("n", 3)
	pp, pa := prios("p", n), prios("a", n)
	var popts []parser.Option
	for i := 0; i < n; i++ {
		popts = append(popts, parser.WithParagraphTransformers(util.Prioritized(&probePT{id: i}, pp[i])))
	}
	for i := 0; i < n; i++ {
		popts = append(popts, parser.WithASTTransformers(util.Prioritized(&probeAT{id: i}, pa[i])))
	}
	for i := 0; i < n; i++ {
		vp.Assume(pp[i] != 100) // the built-in link reference transformer's priority
	}
	m := build(popts, nil, perm(2*n, vp.ParamInt("order", 0)), vp.ParamInt("route", 0))
	c20PT, c20AT = nil, nil
	var o bytes.Buffer
	// a paragraph that starts with a link reference definition: the built-in transformer at 100 removes that line
	e := m.Convert([]byte("[a]: /u\nx\n"), &o)
	vp.Assert(e == nil, "conversion returned an error")
	ids := make([]int, n)
	for i := range ids {
		ids[i] = i
	}
	var wantPT []int
	for _, id := range sortedBy(ids, pp) {
		if pp[id] < 100 {
			wantPT = append(wantPT, id*10+2)
		} else {
			wantPT = append(wantPT, id*10+1)
		}
	}
	vp.Assert(eqInts(c20PT, wantPT), "paragraph transformers did not run in ascending priority (relative to each other and to the built-in one at 100)")
	vp.Assert(eqInts(c20AT, sortedBy(ids, pa)), "AST transformers did not run in ascending priority")
	vp.Reach("done")
}

// H_c20_render: for a node kind the renderer function registered with the smallest priority value is
// used (the built-in HTML renderer sits at 1000); a kind without a function is skipped without
// failing and its children are rendered.
func H_c20_render() {
	n := vp.ParamInt("n", 3)
	pr := prios("p", n)
	var ropts []renderer.Option
	for i := 0; i < n; i++ {
		ropts = append(ropts, renderer.WithNodeRenderers(util.Prioritized(&probeNR{id: i}, pr[i])))
	}
	m := build(nil, ropts, perm(n, vp.ParamInt("order", 0)), vp.ParamInt("route", 0))
	var o bytes.Buffer
	e := m.Convert([]byte("---\n"), &o)
	vp.Assert(e == nil, "conversion returned an error")
	ids := make([]int, n)
	for i := range ids {
		ids[i] = i
	}
	best := sortedBy(ids, pr)[0]
	if pr[best] < 1000 {
		vp.Assert(bytes.Equal(o.Bytes(), []byte{'R', byte('0' + best), ';'}), "the renderer function with the smallest priority value was not the one used")
	} else {
		vp.Assert(bytes.Equal(o.Bytes(), []byte("<hr>\n")), "a probe renderer with a larger priority value displaced the built-in one")
	}
	// a node of a kind nobody renders, created after every kind the renderer knows: skipped, children rendered
	src := []byte("a\n")
	doc := m.Parser().Parse(text.NewReader(src))
	wrap := &probeNode{kind: kindNoRenderer}
	para := doc.FirstChild()
	doc.RemoveChild(doc, para)
	wrap.AppendChild(wrap, para)
	doc.AppendChild(doc, wrap)
	var o2 bytes.Buffer
	e = m.Renderer().Render(&o2, src, doc)
	vp.Assert(e == nil, "rendering a node without a renderer function failed")
	vp.Assert(bytes.Equal(o2.Bytes(), []byte("<p>a</p>\n")), "children of a node without a renderer function were not rendered")
	vp.Reach("done")
}

func init() {
	reg("H_c20_block", H_c20_block)
	reg("H_c20_inline", H_c20_inline)
	reg("H_c20_transformers", H_c20_transformers)
	reg("H_c20_render", H_c20_render)
}
