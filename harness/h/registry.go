package h

// Entries maps entry-point names to harness functions for the native replay binary.
var Entries = map[string]func(){}

func reg(name string, f func()) { Entries[name] = f }
