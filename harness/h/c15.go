package h

import (
	"bytes"

	"verifh/vp"
)

// headingDoc builds a document of headings from a shape string; every heading's text is a run of
// tn symbolic bytes named t<i>. Shapes: a = ATX, s = Setext (=), u = Setext (-), q = ATX in a quote,
// l = ATX in a list item, e = Setext in a quote, c = ATX with closing sequence, 2 = level-2 ATX.
func headingDoc(shape string, tn int, tns string, alpha string) []byte {
	var d []byte
	lits := splitN(vp.ParamStr("lits", ""), ',')
	for i := 0; i < len(shape); i++ {
		k := tn
		if i < len(tns) {
			k = int(tns[i] - '0')
		}
		var t []byte
		if i < len(lits) && lits[i] != "" {
			t = []byte(lits[i]) // concrete text (e.g. the literal fallback id)
		} else {
			t = vp.Bytes("t"+string(rune('0'+i)), k)
			alphaAssume(t, alpha)
		}
		switch shape[i] {
		case 'a':
			d = append(append(append(d, "# "...), t...), "\n\n"...)
		case '2':
			d = append(append(append(d, "## "...), t...), "\n"...)
		case 'c':
			d = append(append(append(d, "# "...), t...), " #\n"...)
		case 's':
			d = append(append(d, t...), "\n===\n\n"...)
		case 'u':
			d = append(append(d, t...), "\n---\n\n"...)
		case 'q':
			d = append(append(append(d, "> # "...), t...), "\n\n"...)
		case 'l':
			d = append(append(append(d, "- # "...), t...), "\n\n"...)
		case 'e':
			d = append(append(append(d, "> "...), t...), "\n> ===\n\n"...)
		default:
			panic("headingDoc: unknown shape")
		}
	}
	return d
}

// headingIDs tokenises out and returns the id attribute value of every h1..h6 (nil when absent).
func headingIDs(out []byte) (ids [][]byte, present []bool, ok bool) {
	tokQuiet = true
	toks, ok := tokenizeHTML(out)
	tokQuiet = false
	if !ok {
		return nil, nil, false
	}
	for i := range toks {
		t := &toks[i]
		if t.Kind == tOpen && len(t.Name) == 2 && t.Name[0] == 'h' && t.Name[1] >= '1' && t.Name[1] <= '6' {
			v, has := t.attr("id")
			ids = append(ids, v)
			present = append(present, has)
		}
	}
	return ids, present, true
}

// H_c15_ids: with AutoHeadingID every heading has a non-empty id, ids are pairwise distinct, and they
// do not depend on what the instance converted before.
func H_c15_ids() {
	cfg := vp.ParamStr("cfg", "core|autoid|")
	m := WarmMD(cfg)
	var src []byte
	if sh := vp.ParamStr("shape", ""); sh != "" {
		src = headingDoc(sh, vp.ParamInt("tn", 1), vp.ParamStr("tns", ""), vp.ParamStr("alpha", ""))
	} else {
		src = Source()
	}
	vp.Observe("src", src)
	var o bytes.Buffer
	e := m.Convert(src, &o)
	vp.Assert(e == nil, "conversion returned an error")
	out := o.Bytes()
	vp.Observe("out", out)
	ids, present, ok := headingIDs(out)
	if !ok {
		return
	}
	for i := range ids {
		vp.Assert(present[i], "heading without an id attribute")
		vp.Assert(len(ids[i]) > 0, "heading with an empty id")
		for j := 0; j < i; j++ {
			if len(ids[i]) == len(ids[j]) {
				vp.Assert(vp.Not(vp.EqBytes(ids[i], ids[j])), "two headings of one document share an id")
			}
		}
	}
	if len(ids) >= 2 {
		vp.Reach("two-headings")
	}
	if len(ids) >= 3 {
		vp.Reach("three-headings")
	}
	// history independence: another document first (symbolic or a state-rich concrete one), then the same again
	var other []byte
	if hn := vp.ParamInt("hn", 0); hn > 0 {
		hb := vp.Bytes("h", hn)
		alphaAssume(hb, vp.ParamStr("halpha", ""))
		other = append([]byte("# "), hb...)
		other = append(other, "\n\n# a\n\na\n===\n"...)
	} else {
		other = []byte("# a\n\n# a\n\n# heading\n\n## a-1\n\nb\n---\n")
	}
	var tmp, o2 bytes.Buffer
	_ = m.Convert(other, &tmp)
	e = m.Convert(src, &o2)
	vp.Assert(e == nil, "conversion returned an error")
	vp.Assert(vp.EqBytes(out, o2.Bytes()), "heading ids depend on what the instance converted before")
	vp.Reach("done")
}

func init() { reg("H_c15_ids", H_c15_ids) }
