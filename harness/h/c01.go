package h

import (
	"bytes"

	"github.com/yuin/goldmark"
	"github.com/yuin/goldmark/ast"
	"github.com/yuin/goldmark/extension"
	"github.com/yuin/goldmark/parser"
	"github.com/yuin/goldmark/renderer"
	"github.com/yuin/goldmark/renderer/html"
	"github.com/yuin/goldmark/text"
	"verifh/vp"
)

// mdCache keeps one warm instance per configuration string across paths of a worker.
var mdCache = map[string]goldmark.Markdown{}

// NewMD builds a goldmark instance for a configuration string such as
// "gfm,footnote|autoid,attr|unsafe,xhtml". Fields: extensions | parser options | renderer options.
func NewMD(cfg string) goldmark.Markdown {
	parts := splitN(cfg, '|')
	for len(parts) < 3 {
		parts = append(parts, "")
	}
	var exts []goldmark.Extender
	for _, e := range splitN(parts[0], ',') {
		switch e {
		case "", "core":
		case "gfm":
			exts = append(exts, extension.GFM)
		case "table":
			exts = append(exts, extension.Table)
		case "tableattr":
			// cell alignment pinned to the align attribute (does not vary with XHTML)
			exts = append(exts, extension.NewTable(extension.WithTableCellAlignMethod(extension.TableCellAlignAttribute)))
		case "tablestyle":
			exts = append(exts, extension.NewTable(extension.WithTableCellAlignMethod(extension.TableCellAlignStyle)))
		case "strike":
			exts = append(exts, extension.Strikethrough)
		case "linkify":
			exts = append(exts, extension.Linkify)
		case "tasklist":
			exts = append(exts, extension.TaskList)
		case "deflist":
			exts = append(exts, extension.DefinitionList)
		case "footnote":
			exts = append(exts, extension.Footnote)
		case "typographer":
			exts = append(exts, extension.Typographer)
		case "footnoteopts":
			// every footnote option set; ^^ is replaced by the footnote index, %% by its reference count
			exts = append(exts, extension.NewFootnote(
				extension.WithFootnoteIDPrefix("p-"),
				extension.WithFootnoteLinkTitle("l ^^ %% \"q\" <t>"),
				extension.WithFootnoteBacklinkTitle("b ^^ %% & 'r'"),
				extension.WithFootnoteLinkClass("lc^^"),
				extension.WithFootnoteBacklinkClass("bc%%"),
				extension.WithFootnoteBacklinkHTML("^^:%%"),
			))
		case "footnotefn":
			exts = append(exts, extension.NewFootnote(extension.WithFootnoteIDPrefixFunction(func(n ast.Node) []byte {
				_ = n.Kind() // the same prefix for the reference, the back-link and the item: anything else breaks the links by configuration
				return []byte("f0-")
			})))
		case "linkifyopts":
			exts = append(exts, extension.NewLinkify(extension.WithLinkifyAllowedProtocols([]string{"http:", "x-y:", "javascript:"})))
		case "tablenone":
			exts = append(exts, extension.NewTable(extension.WithTableCellAlignMethod(extension.TableCellAlignNone)))
		case "typonoangle", "typonodash", "typonoquote":
			// the typographer with some substitutions switched off (nil)
			subs := extension.TypographicSubstitutions{}
			switch e {
			case "typonoangle":
				subs[extension.LeftAngleQuote], subs[extension.RightAngleQuote] = nil, nil
			case "typonodash":
				subs[extension.EnDash], subs[extension.EmDash], subs[extension.Ellipsis] = nil, nil, nil
			case "typonoquote":
				subs[extension.LeftSingleQuote], subs[extension.RightSingleQuote], subs[extension.LeftDoubleQuote], subs[extension.RightDoubleQuote] = nil, nil, nil, nil
			}
			exts = append(exts, extension.NewTypographer(extension.WithTypographicSubstitutions(subs)))
		case "cjk":
			exts = append(exts, extension.CJK)
		case "cjkcss3":
			exts = append(exts, extension.NewCJK(extension.WithEastAsianLineBreaks(extension.EastAsianLineBreaksCSS3Draft)))
		case "cjkesc":
			exts = append(exts, extension.NewCJK(extension.WithEscapedSpace()))
		default:
			panic("unknown extension " + e)
		}
	}
	var popts []parser.Option
	for _, o := range splitN(parts[1], ',') {
		switch o {
		case "":
		case "autoid":
			popts = append(popts, parser.WithAutoHeadingID())
		case "attr":
			popts = append(popts, parser.WithAttribute())
		default:
			panic("unknown parser option " + o)
		}
	}
	var ropts []renderer.Option
	for _, o := range splitN(parts[2], ',') {
		switch o {
		case "":
		case "unsafe":
			ropts = append(ropts, html.WithUnsafe())
		case "xhtml":
			ropts = append(ropts, html.WithXHTML())
		case "hardwraps":
			ropts = append(ropts, html.WithHardWraps())
		default:
			panic("unknown renderer option " + o)
		}
	}
	opts := []goldmark.Option{goldmark.WithExtensions(exts...), goldmark.WithParserOptions(popts...)}
	for _, r := range ropts {
		opts = append(opts, goldmark.WithRendererOptions(r))
	}
	return goldmark.New(opts...)
}

func splitN(s string, sep byte) []string {
	var out []string
	start := 0
	for i := 0; i < len(s); i++ {
		if s[i] == sep {
			out = append(out, s[start:i])
			start = i + 1
		}
	}
	return append(out, s[start:])
}

// WarmMD returns the cached instance for cfg, creating and warming it on first use.
func WarmMD(cfg string) goldmark.Markdown {
	if md, ok := mdCache[cfg]; ok {
		return md
	}
	md := NewMD(cfg)
	var w bytes.Buffer
	_ = md.Convert([]byte("# a &amp; *b* [c](d)\n\n- x\n\n| a |\n|---|\n| b |\n\n[^1]\n\n[^1]: f\n"), &w)
	mdCache[cfg] = md
	return md
}

// Source builds the symbolic source: either n free bytes, or a seed document with a window
// of w symbolic bytes at offset p (w bytes appended when p == len(seed)), or a token sequence.
// Optional framing (all modes): the parameter "pre" is a constant prefix, "post" a constant suffix,
// and "rep" a unit that is written "repn" times in front of everything (long documents whose length
// crosses internal thresholds: line-statistics tables, bufio's 4096-byte buffer, id tables).
func Source() []byte {
	core := sourceCore()
	pre, post, rep := vp.ParamStr("pre", ""), vp.ParamStr("post", ""), vp.ParamStr("rep", "")
	if pre == "" && post == "" && rep == "" {
		return core
	}
	var src []byte
	for i, n := 0, vp.ParamInt("repn", 0); i < n; i++ {
		src = append(src, rep...)
	}
	src = append(src, pre...)
	src = append(src, core...)
	return append(src, post...)
}

func sourceCore() []byte {
	if toks := vp.ParamStr("tokens", ""); toks != "" {
		// token mode: n positions, each one of the \x1f-separated tokens (solver-enumerated choice);
		// the token "?" is one unconstrained symbolic byte
		ts := splitN(toks, 0x1f)
		n := vp.ParamInt("n", 3)
		var src []byte
		for i := 0; i < n; i++ {
			c := vp.Concrete(vp.IntRange("tok", 0, len(ts)-1))
			if ts[c] == "?" {
				src = append(src, vp.Byte("q"))
			} else {
				src = append(src, ts[c]...)
			}
		}
		return src
	}
	seed := vp.ParamStr("seed", "")
	if seed == "" && vp.ParamInt("window", 0) == 0 {
		n := vp.ParamInt("n", 2)
		b := vp.Bytes("b", n)
		alphabetAssume(b)
		return b
	}
	p := vp.ParamInt("pos", 0)
	w := vp.ParamInt("window", 1)
	src := []byte(seed)
	if p > len(src) {
		p = len(src)
	}
	hole := vp.Bytes("b", w)
	alphabetAssume(hole)
	if p+w > len(src) {
		src = append(src[:p:p], hole...)
	} else {
		copy(src[p:], hole)
	}
	return src
}

// H_c01_convert: Convert and Parse+Render return normally with nil error and equal bytes.
func H_c01_convert() {
	cfg := vp.ParamStr("cfg", "")
	var md goldmark.Markdown
	if vp.ParamInt("fresh", 0) == 1 {
		md = NewMD(cfg)
	} else {
		md = WarmMD(cfg)
	}
	src := Source()
	vp.Observe("src", src)
	var buf bytes.Buffer
	err := md.Convert(src, &buf)
	vp.Assert(err == nil, "Convert returned an error")
	vp.Observe("out", buf.Bytes())
	doc := md.Parser().Parse(text.NewReader(src))
	var buf2 bytes.Buffer
	err = md.Renderer().Render(&buf2, src, doc)
	vp.Assert(err == nil, "Render returned an error")
	vp.Assert(vp.EqBytes(buf.Bytes(), buf2.Bytes()), "Convert and Parse+Render differ")
	vp.Reach("done")
}

func init() { reg("H_c01_convert", H_c01_convert) }
