package h

import (
	"bytes"

	"verifh/vp"
)

// ---------------------------------------------------------------------------------------------
// C02 part A: documents whose meaning is fixed by construction. A tree is written in a compact
// notation (enumerated by the driver), spelled as Markdown with symbolic byte-level choices, and
// serialised to the HTML CommonMark prescribes by the small reference serializer below.
//
// blocks:  P[inl] paragraph   H<n>[inl] heading   R thematic break   I<n> indented code, n lines
//          F<n> fenced code   Q{blocks} quote     U{items} tight bullet list   V{items} loose bullet
//          O{items} tight ordered   W{items} loose ordered   L{blocks} list item   M HTML block
// inlines: t<n> n letters   p escaped punctuation   x numeric reference   e[inl] emphasis
//          s[inl] strong   c<n> code span   l[inl] link   i[inl] image   a autolink   r raw HTML
//          b hard break   n soft break   w a space
// ---------------------------------------------------------------------------------------------

type c02node struct {
	k    byte
	n    int
	kids []*c02node
}

type c02parser struct {
	s string
	i int
}

func (p *c02parser) num() int {
	n := 0
	for p.i < len(p.s) && p.s[p.i] >= '0' && p.s[p.i] <= '9' {
		n = n*10 + int(p.s[p.i]-'0')
		p.i++
	}
	return n
}

func (p *c02parser) list(open, close byte) []*c02node {
	var out []*c02node
	if p.i < len(p.s) && p.s[p.i] == open {
		p.i++
		for p.i < len(p.s) && p.s[p.i] != close {
			if p.s[p.i] == ' ' {
				p.i++
				continue
			}
			out = append(out, p.node())
		}
		p.i++
	}
	return out
}

func (p *c02parser) node() *c02node {
	n := &c02node{k: p.s[p.i]}
	p.i++
	n.n = p.num()
	switch n.k {
	case 'P', 'H', 'e', 's', 'l', 'i':
		n.kids = p.list('[', ']')
	case 'Q', 'U', 'V', 'O', 'W', 'L':
		n.kids = p.list('{', '}')
	}
	return n
}

func c02parse(s string) []*c02node {
	p := &c02parser{s: s}
	var out []*c02node
	for p.i < len(s) {
		if s[p.i] == ' ' {
			p.i++
			continue
		}
		out = append(out, p.node())
	}
	return out
}

// c02gen holds the two renderings under construction and the spelling choices.
type c02gen struct {
	md, html []byte
	defs     []byte // link reference definitions, appended at the end of the document
	cnt      int
	// enumerated choices
	ind, fenceLen, linkStyle, hbStyle int
	setext, atxClose, tabs           bool
	// symbolic choices (bytes constrained by Assume)
	bullet, odelim, fence, emph, hr, quote byte
}

func (g *c02gen) sym(name string, set string) byte {
	b := vp.Byte(name)
	vp.Assume(vp.InSet(b, set))
	return b
}

func (g *c02gen) letter() byte {
	b := vp.Byte("t")
	vp.Assume(vp.InRange(b, 'a', 'z'))
	return b
}

func htmlEsc(dst []byte, c byte) []byte {
	// forks only on the four bytes whose escape changes the length (the renderer forks the same way)
	switch c {
	case '&':
		return append(dst, "&amp;"...)
	case '<':
		return append(dst, "&lt;"...)
	case '>':
		return append(dst, "&gt;"...)
	case '"':
		return append(dst, "&quot;"...)
	}
	return append(dst, c)
}

// inlines appends the spelling and the prescribed HTML of a sequence of inline nodes.
// pre is the line prefix of the enclosing containers (needed after a line break inside the inline content).
func (g *c02gen) inlines(ns []*c02node, pre []byte, plain bool) {
	for _, n := range ns {
		switch n.k {
		case 't':
			for i := 0; i < n.n; i++ {
				c := g.letter()
				g.md = append(g.md, c)
				g.html = append(g.html, c)
			}
		case 'w':
			g.md = append(g.md, ' ')
			g.html = append(g.html, ' ')
		case 'p':
			c := vp.Byte("punct")
			vp.Assume(vp.InSet(c, "!\"#$%&'()*+,-./:;<=>?@[\\]^_`{|}~"))
			g.md = append(g.md, '\\', c)
			g.html = htmlEsc(g.html, c)
		case 'x':
			d1, d2 := vp.Byte("d1"), vp.Byte("d2")
			vp.Assume(vp.And(vp.InRange(d1, '3', '9'), vp.InRange(d2, '0', '9')))
			vp.Assume(vp.Or(d1 > '3', d2 >= '3')) // code points 33..99: printable ASCII
			g.md = append(g.md, '&', '#', d1, d2, ';')
			g.html = htmlEsc(g.html, (d1-'0')*10+(d2-'0'))
		case 'e', 's':
			k := 1
			tag := "em"
			if n.k == 's' {
				k, tag = 2, "strong"
			}
			for i := 0; i < k; i++ {
				g.md = append(g.md, g.emph)
			}
			if !plain {
				g.html = append(append(append(g.html, '<'), tag...), '>')
			}
			g.inlines(n.kids, pre, plain)
			for i := 0; i < k; i++ {
				g.md = append(g.md, g.emph)
			}
			if !plain {
				g.html = append(append(append(g.html, "</"...), tag...), '>')
			}
		case 'c':
			g.md = append(g.md, '`')
			if !plain {
				g.html = append(g.html, "<code>"...)
			}
			for i := 0; i < n.n; i++ {
				c := g.letter()
				g.md = append(g.md, c)
				g.html = append(g.html, c)
			}
			g.md = append(g.md, '`')
			if !plain {
				g.html = append(g.html, "</code>"...)
			}
		case 'l', 'i':
			g.cnt++
			my := g.cnt // links nest: the counter moves on while the text is spelled
			url := []byte{'/', 'u', byte('0' + my%10)}
			title := []byte{'T', g.letter()}
			if n.k == 'i' {
				g.md = append(g.md, '!')
			}
			g.md = append(g.md, '[')
			// the text: rendered (link) or flattened to plain text (image alt)
			var textHTML []byte
			{
				saveH := g.html
				g.html = nil
				g.inlines(n.kids, pre, plain || n.k == 'i')
				textHTML = g.html
				g.html = saveH
			}
			g.md = append(g.md, ']')
			style := g.linkStyle
			if style >= 2 {
				// collapsed/shortcut: the label is the text itself, which must then be plain letters
				for _, kid := range n.kids {
					if kid.k != 't' {
						style = 1
					}
				}
			}
			switch style {
			case 0: // inline
				g.md = append(append(append(g.md, '('), url...), ' ', g.quote)
				g.md = append(append(g.md, title...), g.quote, ')')
			case 1: // full reference: label letters with symbolic case flips against the definition
				lab := []byte{'l', 'b', ' ', byte('a' + my%26)}
				g.md = append(g.md, '[')
				for li, c := range lab {
					// a solver-enumerated case flip per letter (forked: the label bytes stay concrete on each path)
					if li < 2 && vp.Bool("flip") {
						c ^= 0x20
					}
					if c == ' ' {
						// any whitespace spelling of the label's inner space: one or two bytes of space/TAB
						c = g.sym("labws", " \t")
						if vp.Bool("labws2") {
							g.md = append(g.md, g.sym("labws", " \t"))
						}
					}
					g.md = append(g.md, c)
				}
				g.md = append(g.md, ']')
				g.def(lab, url, title)
			case 2, 3: // collapsed [text][] / shortcut [text]
				// two links may spell the same label (the text letters are symbolic): all such
				// definitions carry the same destination and title, so "first definition wins" is moot
				url, title = []byte("/u0"), []byte("Tz")
				if style == 2 {
					g.md = append(g.md, '[', ']')
				}
				// label = the spelled text, definition in upper case (matching is case-insensitive)
				st := len(g.md) - 1
				if style == 2 {
					st -= 2
				}
				e := st
				for st > 0 && g.md[st-1] != '[' {
					st--
				}
				lab := make([]byte, 0, e-st)
				for _, c := range g.md[st:e] {
					lab = append(lab, c&^0x20)
				}
				g.def(lab, url, title)
			}
			if plain {
				g.html = append(g.html, textHTML...)
				break
			}
			if n.k == 'l' {
				g.html = append(append(append(g.html, "<a href=\""...), url...), "\" title=\""...)
				g.html = append(append(append(g.html, title...), "\">"...), textHTML...)
				g.html = append(g.html, "</a>"...)
			} else {
				g.html = append(append(append(g.html, "<img src=\""...), url...), "\" alt=\""...)
				g.html = append(append(append(g.html, textHTML...), "\" title=\""...), title...)
				g.html = append(g.html, "\" />"...)
			}
		case 'a':
			u := append([]byte("http://a.bc/"), g.letter(), g.letter())
			g.md = append(append(append(g.md, '<'), u...), '>')
			if plain {
				g.html = append(g.html, u...)
			} else {
				g.html = append(append(append(g.html, "<a href=\""...), u...), "\">"...)
				g.html = append(append(g.html, u...), "</a>"...)
			}
		case 'r':
			g.md = append(g.md, "<b class=\"k\">"...)
			if !plain {
				g.html = append(g.html, "<b class=\"k\">"...)
			}
		case 'b':
			if g.hbStyle == 0 {
				g.md = append(g.md, '\\', '\n')
			} else {
				g.md = append(g.md, ' ', ' ', '\n')
			}
			g.md = append(g.md, pre...)
			if plain {
				g.html = append(g.html, '\n')
			} else {
				g.html = append(g.html, "<br />\n"...)
			}
		case 'n':
			g.md = append(append(g.md, '\n'), pre...)
			g.html = append(g.html, '\n')
		default:
			panic("c02: unknown inline " + string(n.k))
		}
	}
}

func (g *c02gen) def(lab, url, title []byte) {
	g.defs = append(append(append(g.defs, '['), lab...), "]: "...)
	g.defs = append(append(g.defs, url...), ' ', '\'')
	g.defs = append(append(g.defs, title...), '\'', '\n')
}

// blocks spells a sequence of blocks separated by blank lines. first is the prefix of the first
// line (a list marker may sit there), pre the prefix of every other line.
func (g *c02gen) blocks(ns []*c02node, first, pre []byte, tight bool, depth int) {
	for bi, n := range ns {
		lead := pre
		if bi == 0 {
			lead = first
		} else if !tight {
			// blank line between blocks (inside a container the prefix without trailing spaces is enough)
			g.md = append(append(g.md, trimRightSp(pre)...), '\n')
		}
		ind := 0
		if depth == 0 {
			ind = g.ind
		}
		line := func() {
			g.md = append(g.md, lead...)
			for i := 0; i < ind; i++ {
				g.md = append(g.md, ' ')
			}
			lead = pre
		}
		switch n.k {
		case 'P':
			line()
			if tight {
				g.inlines(n.kids, padTo(pre, ind), false)
				g.md = append(g.md, '\n')
				g.html = append(g.html, '\n')
			} else {
				g.html = append(g.html, "<p>"...)
				g.inlines(n.kids, padTo(pre, ind), false)
				g.md = append(g.md, '\n')
				g.html = append(g.html, "</p>\n"...)
			}
		case 'H':
			lv := n.n
			tag := []byte{'h', byte('0' + lv)}
			g.html = append(append(append(g.html, '<'), tag...), '>')
			line()
			if g.setext && lv <= 2 {
				g.inlines(n.kids, padTo(pre, ind), false)
				g.md = append(append(g.md, '\n'), pre...)
				u := byte('=')
				if lv == 2 {
					u = '-'
				}
				g.md = append(g.md, u, u, u, '\n')
			} else {
				for i := 0; i < lv; i++ {
					g.md = append(g.md, '#')
				}
				g.md = append(g.md, ' ')
				g.inlines(n.kids, nil, false)
				if g.atxClose {
					g.md = append(g.md, ' ', '#', '#')
				}
				g.md = append(g.md, '\n')
			}
			g.html = append(append(append(g.html, "</"...), tag...), ">\n"...)
		case 'R':
			line()
			g.md = append(g.md, g.hr, g.hr, g.hr, '\n')
			g.html = append(g.html, "<hr />\n"...)
		case 'I':
			g.html = append(g.html, "<pre><code>"...)
			for l := 0; l < n.n; l++ {
				g.md = append(g.md, lead...)
				// a tab spells the same indentation only where it reaches the same column
				useTab := g.tabs && len(lead)%4 == 0
				lead = pre
				if useTab {
					g.md = append(g.md, '\t')
				} else {
					g.md = append(g.md, ' ', ' ', ' ', ' ')
				}
				for i := 0; i < 2; i++ {
					c := g.letter()
					g.md = append(g.md, c)
					g.html = append(g.html, c)
				}
				g.md = append(g.md, '\n')
				g.html = append(g.html, '\n')
			}
			g.html = append(g.html, "</code></pre>\n"...)
		case 'F':
			line()
			for i := 0; i < g.fenceLen; i++ {
				g.md = append(g.md, g.fence)
			}
			g.md = append(g.md, '\n')
			g.html = append(g.html, "<pre><code>"...)
			for l := 0; l < n.n; l++ {
				g.md = append(g.md, pre...)
				for i := 0; i < ind; i++ {
					g.md = append(g.md, ' ')
				}
				for i := 0; i < 2; i++ {
					c := g.letter()
					g.md = append(g.md, c)
					g.html = append(g.html, c)
				}
				g.md = append(g.md, '\n')
				g.html = append(g.html, '\n')
			}
			g.md = append(g.md, pre...)
			for i := 0; i < g.fenceLen; i++ {
				g.md = append(g.md, g.fence)
			}
			g.md = append(g.md, '\n')
			g.html = append(g.html, "</code></pre>\n"...)
		case 'M':
			line()
			g.md = append(g.md, "<div>\n"...)
			g.md = append(append(g.md, pre...), "x\n"...)
			g.md = append(append(g.md, pre...), "</div>\n"...)
			// an HTML block is passed through as written, leading indentation of its first line included
			for i := 0; i < ind; i++ {
				g.html = append(g.html, ' ')
			}
			g.html = append(g.html, "<div>\nx\n</div>\n"...)
		case 'Q':
			g.html = append(g.html, "<blockquote>\n"...)
			f2 := append(append(padTo(lead, ind), '>'), ' ')
			p2 := append(append(append([]byte(nil), pre...), '>'), ' ')
			g.blocks(n.kids, f2, p2, false, depth+1)
			g.html = append(g.html, "</blockquote>\n"...)
		case 'U', 'V', 'O', 'W':
			ordered := n.k == 'O' || n.k == 'W'
			// a list is loose only through a blank line between items or between the blocks of an item:
			// one item holding one block cannot be spelled loose
			loose := (n.k == 'V' || n.k == 'W') && (len(n.kids) > 1 || len(n.kids[0].kids) > 1)
			if ordered {
				g.html = append(g.html, "<ol>\n"...)
			} else {
				g.html = append(g.html, "<ul>\n"...)
			}
			for ii, item := range n.kids {
				if ii > 0 && loose {
					g.md = append(append(g.md, trimRightSp(pre)...), '\n')
				}
				var marker []byte
				if ordered {
					marker = []byte{byte('1' + ii%9), g.odelim, ' '}
				} else {
					marker = []byte{g.bullet, ' '}
				}
				f2 := append(padTo(lead, ind), marker...)
				lead = pre
				p2 := padTo(pre, ind+len(marker))
				if len(item.kids) == 0 {
					// an empty item: the bare marker
					g.md = append(append(g.md, trimRightSp(f2)...), '\n')
					g.html = append(g.html, "<li></li>\n"...)
					continue
				}
				g.html = append(g.html, "<li>"...)
				if loose || (len(item.kids) > 0 && item.kids[0].k != 'P') {
					g.html = append(g.html, '\n')
				}
				g.blocks(item.kids, f2, p2, !loose, depth+1)
				g.html = append(g.html, "</li>\n"...)
			}
			if ordered {
				g.html = append(g.html, "</ol>\n"...)
			} else {
				g.html = append(g.html, "</ul>\n"...)
			}
		default:
			panic("c02: unknown block " + string(n.k))
		}
	}
}

func padTo(pre []byte, n int) []byte {
	out := append([]byte(nil), pre...)
	for i := 0; i < n; i++ {
		out = append(out, ' ')
	}
	return out
}

func trimRightSp(b []byte) []byte {
	e := len(b)
	for e > 0 && b[e-1] == ' ' {
		e--
	}
	return b[:e]
}

// normHTML: the inter-block whitespace the specification's comparison ignores — a newline directly
// behind '>' or directly in front of '<' (outside of which nothing is touched), and trailing newlines.
func normHTML(b []byte) []byte {
	var out []byte
	for i := 0; i < len(b); i++ {
		if b[i] == '\n' {
			if i > 0 && b[i-1] == '>' {
				continue
			}
			if i+1 < len(b) && b[i+1] == '<' {
				continue
			}
			if i+1 == len(b) {
				continue
			}
		}
		out = append(out, b[i])
	}
	return out
}

// H_c02_tree: conv(spell(tree)) == expect(tree) up to inter-block whitespace, for every byte-level spelling.
func H_c02_tree() {
	m := WarmMD("core||unsafe,xhtml")
	g := &c02gen{
		ind: vp.ParamInt("ind", 0), fenceLen: vp.ParamInt("fence", 3), linkStyle: vp.ParamInt("link", 0), hbStyle: vp.ParamInt("hb", 0),
		setext: vp.ParamInt("setext", 0) == 1, atxClose: vp.ParamInt("atxclose", 0) == 1, tabs: vp.ParamInt("tabs", 0) == 1,
	}
	g.bullet = g.sym("bullet", "-+*")
	g.odelim = g.sym("odelim", ".)")
	g.fence = g.sym("fencec", "`~")
	g.emph = g.sym("emph", "*_")
	g.hr = g.sym("hr", "*-_")
	g.quote = g.sym("quote", "\"'")
	tree := c02parse(vp.ParamStr("tree", "P[t2]"))
	g.blocks(tree, nil, nil, false, 0)
	if len(g.defs) > 0 {
		g.md = append(append(g.md, '\n'), g.defs...)
	}
	vp.Observe("src", g.md)
	vp.Observe("want", g.html)
	var o bytes.Buffer
	e := m.Convert(g.md, &o)
	vp.Assert(e == nil, "conversion returned an error")
	vp.Observe("got", o.Bytes())
	vp.Assert(vp.EqBytes(normHTML(o.Bytes()), normHTML(g.html)), "rendering differs from the HTML CommonMark prescribes for this structure")
	vp.Reach("done")
}

// ---------------------------------------------------------------------------------------------
// C02 part B: spec examples after spec-licensed rewrites. Expected HTML comes from spec.json.
//   rewrite 0: as is   1: final newline removed   2: one more final newline
//   3/4/5: an unrelated closed block (paragraph / ATX heading / thematic break) placed before
//   6/7/8: the same placed after. The block's content bytes are symbolic plain letters.
// ---------------------------------------------------------------------------------------------

func H_c02_spec() {
	m := WarmMD("core||unsafe,xhtml")
	md := []byte(vp.ParamStr("md", ""))
	exp := []byte(vp.ParamStr("html", ""))
	rw := vp.ParamInt("rw", 0)
	var pMD, pHTML []byte
	if rw >= 3 {
		a, b := vp.Byte("t"), vp.Byte("t")
		vp.Assume(vp.And(vp.InRange(a, 'a', 'z'), vp.InRange(b, 'a', 'z')))
		switch (rw - 3) % 3 {
		case 0:
			pMD = []byte{'p', a, ' ', b, '\n'}
			pHTML = append(append([]byte("<p>p"), a, ' ', b), "</p>\n"...)
		case 1:
			pMD = []byte{'#', '#', ' ', a, b, '\n'}
			pHTML = append(append([]byte("<h2>"), a, b), "</h2>\n"...)
		case 2:
			c := vp.Byte("hr")
			vp.Assume(vp.InSet(c, "*_"))
			pMD = []byte{c, c, c, '\n'}
			pHTML = []byte("<hr />\n")
		}
	}
	var src, want []byte
	switch {
	case rw == 0:
		src, want = md, exp
	case rw == 1:
		src, want = md, exp
		if len(src) > 0 && src[len(src)-1] == '\n' {
			src = src[:len(src)-1]
		}
	case rw == 2:
		src, want = append(append([]byte(nil), md...), '\n'), exp
	case rw < 6:
		src = append(append(append([]byte(nil), pMD...), '\n'), md...)
		want = append(append([]byte(nil), pHTML...), exp...)
	default:
		src = append([]byte(nil), md...)
		if len(src) > 0 && src[len(src)-1] != '\n' {
			src = append(src, '\n')
		}
		src = append(append(src, '\n'), pMD...)
		want = append(append([]byte(nil), exp...), pHTML...)
	}
	vp.Observe("src", src)
	vp.Observe("want", want)
	var o bytes.Buffer
	e := m.Convert(src, &o)
	vp.Assert(e == nil, "conversion returned an error")
	vp.Observe("got", o.Bytes())
	vp.Assert(vp.EqBytes(normHTML(o.Bytes()), normHTML(want)), "rewritten spec example does not render as the specification prescribes")
	vp.Reach("done")
}

func init() {
	reg("H_c02_tree", H_c02_tree)
	reg("H_c02_spec", H_c02_spec)
}

// ---------------------------------------------------------------------------------------------
// C02 part A': indentation written with tabs. A chain of container markers ('>' block quote,
// '-' bullet item) separated by single spaces, then a run of spaces/tabs, then two symbolic letters.
// The prescribed structure follows from column arithmetic alone (tab stops every 4 columns): the last
// marker takes one column of the whitespace; 4 or more remaining columns make an indented code block
// whose content starts with the columns beyond 4, fewer make a paragraph.
// ---------------------------------------------------------------------------------------------

func H_c02_tabs() {
	m := WarmMD("core||unsafe,xhtml")
	markers := vp.ParamStr("markers", ">")
	ws := vp.ParamStr("ws", "\t")
	a, b := vp.Byte("t"), vp.Byte("t")
	vp.Assume(vp.And(vp.InRange(a, 'a', 'z'), vp.InRange(b, 'a', 'z')))
	var md []byte
	col := 0
	for i := 0; i < len(markers); i++ {
		md = append(md, markers[i])
		col++
		if i+1 < len(markers) {
			md = append(md, ' ')
			col++
		}
	}
	start := col
	for i := 0; i < len(ws); i++ {
		md = append(md, ws[i])
		if ws[i] == '\t' {
			col += 4 - col%4
		} else {
			col++
		}
	}
	w := col - start
	md = append(md, a, b, '\n')
	last := markers[len(markers)-1]
	var html, tail []byte
	for i := 0; i < len(markers); i++ {
		if i == len(markers)-1 && w == 0 {
			break // no whitespace behind the last marker: it is not a marker ('>' still is)
		}
		if markers[i] == '>' {
			html = append(html, "<blockquote>\n"...)
			tail = append([]byte("</blockquote>\n"), tail...)
		} else {
			html = append(html, "<ul>\n<li>"...)
			tail = append([]byte("</li>\n</ul>\n"), tail...)
		}
	}
	switch {
	case w == 0 && last == '>':
		html = append(append(append(html, "<blockquote>\n<p>"...), a, b), "</p>\n</blockquote>\n"...)
	case w == 0:
		html = append(append(append(html, "<p>-"...), a, b), "</p>\n"...)
	case w-1 >= 4:
		html = append(html, "<pre><code>"...)
		// whitespace beyond the 1+4 consumed columns stays in the code: a tab straddling the boundary
		// contributes its remaining columns as spaces, later characters are kept verbatim
		bound := start + 1 + 4
		c0 := start
		for i := 0; i < len(ws); i++ {
			c1 := c0 + 1
			if ws[i] == '\t' {
				c1 = c0 + 4 - c0%4
			}
			switch {
			case c1 <= bound:
			case c0 < bound:
				for k := 0; k < c1-bound; k++ {
					html = append(html, ' ')
				}
			default:
				html = append(html, ws[i])
			}
			c0 = c1
		}
		html = append(append(html, a, b), "\n</code></pre>\n"...)
	case last == '>':
		html = append(append(append(html, "<p>"...), a, b), "</p>\n"...)
	default:
		html = append(html, a, b)
	}
	html = append(html, tail...)
	vp.Observe("src", md)
	vp.Observe("want", html)
	var o bytes.Buffer
	e := m.Convert(md, &o)
	vp.Assert(e == nil, "conversion returned an error")
	vp.Observe("got", o.Bytes())
	vp.Assert(vp.EqBytes(normHTML(o.Bytes()), normHTML(html)), "indentation written with tabs does not give the structure its columns prescribe")
	vp.Reach("done")
}

func init() { reg("H_c02_tabs", H_c02_tabs) }
