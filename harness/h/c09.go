package h

import (
	"bytes"

	"verifh/vp"
)

// closedA assumes a syntactic SUFFICIENT condition for "A does not end inside an open fenced code
// block, indented code block or HTML block" (branch-free where bytes are symbolic):
//   - no run of three '`' or three '~': no fenced code block can open;
//   - no '<' anywhere: no HTML block can open;
//   - the last non-blank line holds no TAB and no run of four spaces: whatever containers it sits in,
//     it cannot be an indented code line (the indentation of a line is one contiguous whitespace run
//     after its container markers).
// and, for both documents, no '[' (link reference syntax) and no CR.
func closedA(a []byte) {
	for i := range a {
		vp.Assume(vp.Not(vp.InSet(a[i], "<[\r")))
	}
	// no run of three backticks or tildes: no code fence can open (single backticks are welcome: an
	// unmatched one is ordinary text of a closed paragraph)
	for i := 0; i+2 < len(a); i++ {
		vp.Assume(vp.Not(vp.And(a[i] == '`', vp.And(a[i+1] == '`', a[i+2] == '`'))))
		vp.Assume(vp.Not(vp.And(a[i] == '~', vp.And(a[i+1] == '~', a[i+2] == '~'))))
	}
	// find the last non-blank line: this forks on LF/space positions, which the parser decides anyway
	end := len(a)
	for end > 0 {
		// strip a trailing blank line
		j := end
		if j > 0 && a[j-1] == '\n' {
			j--
		}
		k := j
		for k > 0 && a[k-1] != '\n' {
			k--
		}
		blank := true
		for x := k; x < j; x++ {
			if a[x] != ' ' && a[x] != '\t' {
				blank = false
			}
		}
		if !blank {
			run := 0
			for x := k; x < j; x++ {
				vp.Assume(a[x] != '\t')
				if a[x] == ' ' {
					run++
					vp.Assume(run < 4)
				} else {
					run = 0
				}
			}
			return
		}
		if k == end {
			break
		}
		end = k
	}
}

// tokenSeq: n positions, each a solver-enumerated choice among the \x1f-separated tokens.
func tokenSeq(toks string, n int, name string) []byte {
	ts := splitN(toks, 0x1f)
	var out []byte
	for i := 0; i < n; i++ {
		out = append(out, ts[vp.Concrete(vp.IntRange(name, 0, len(ts)-1))]...)
	}
	return out
}

// H_c09_indep: conv(A ⊕ blank ⊕ "# h" ⊕ blank ⊕ B) == conv(A) ⊕ "<h1>h</h1>\n" ⊕ conv(B).
func H_c09_indep() {
	m := WarmMD(vp.ParamStr("cfg", ""))
	var a, b []byte
	if s := vp.ParamStr("seedA", ""); s != "" {
		// A is a corpus document with a window; B free
		a = windowed(s, vp.ParamInt("posA", 0), vp.ParamInt("wA", 0), "a")
	} else if t := vp.ParamStr("tokensA", ""); t != "" {
		a = tokenSeq(t, vp.ParamInt("an", 1), "ta")
	} else {
		a = vp.Bytes("a", vp.ParamInt("an", 1))
		alphaAssume(a, vp.ParamStr("alphaA", ""))
	}
	if s := vp.ParamStr("seedB", ""); s != "" {
		b = windowed(s, vp.ParamInt("posB", 0), vp.ParamInt("wB", 0), "b")
	} else if t := vp.ParamStr("tokensB", ""); t != "" {
		b = tokenSeq(t, vp.ParamInt("bn", 1), "tb")
	} else {
		b = vp.Bytes("b", vp.ParamInt("bn", 1))
		alphaAssume(b, vp.ParamStr("alphaB", ""))
	}
	if vp.ParamInt("trustA", 0) == 1 {
		// A is a template that is closed by construction (an HTML block or fence that ends inside A); its
		// symbolic bytes are kept away from everything that could reopen it
		if w := vp.ParamInt("wA", 0); w > 0 {
			pa := vp.ParamInt("posA", 0)
			for i := pa; i < pa+w && i < len(a); i++ {
				vp.Assume(vp.Not(vp.InSet(a[i], "`~<>[]\r\n-?!")))
			}
		}
	} else {
		closedA(a)
	}
	for i := range b {
		vp.Assume(vp.Not(vp.InSet(b[i], "[\r")))
	}
	vp.Observe("A", a)
	vp.Observe("B", b)
	doc := append([]byte(nil), a...)
	if len(a) > 0 && a[len(a)-1] != '\n' {
		doc = append(doc, '\n')
	}
	doc = append(doc, "\n# h\n\n"...)
	doc = append(doc, b...)
	vp.Observe("src", doc)
	// "the rendering of A" is that of A as it stands in the joined document, i.e. with its line ended
	aNL := a
	if len(a) > 0 && a[len(a)-1] != '\n' {
		aNL = append(append([]byte(nil), a...), '\n')
	}
	var oa, ob, od bytes.Buffer
	e1 := m.Convert(aNL, &oa)
	e2 := m.Convert(b, &ob)
	e3 := m.Convert(doc, &od)
	vp.Assert(e1 == nil && e2 == nil && e3 == nil, "conversion returned an error")
	h := "<h1>h</h1>\n"
	if vp.ParamInt("autoid", 0) == 1 {
		h = "<h1 id=\"h\">h</h1>\n"
	}
	want := append(append(append([]byte(nil), oa.Bytes()...), h...), ob.Bytes()...)
	vp.Observe("got", od.Bytes())
	vp.Observe("want", want)
	vp.Assert(vp.EqBytes(od.Bytes(), want), "A, heading, B does not render as rendering(A) + heading + rendering(B)")
	vp.Reach("done")
}

func alphaAssume(b []byte, a string) {
	if a != "" {
		for i := range b {
			vp.Assume(vp.InSet(b[i], a))
		}
	}
}

func windowed(seed string, p, w int, name string) []byte {
	src := []byte(seed)
	if w == 0 {
		return src
	}
	hole := vp.Bytes(name, w)
	if p+w > len(src) {
		src = append(src[:p:p], hole...)
	} else {
		copy(src[p:], hole)
	}
	return src
}

// reference-definition templates: a document X that uses labels, and a block of definitions.
// Each letter of a label used in X gets a symbolic case bit; whitespace inside labels is varied by the plan.
type c09Ref struct{ x, defs string }

// In x, the bytes between \x01 and \x02 are a label whose letters get symbolic case flips.
var c09Refs = []c09Ref{
	{"[\x01foo\x02] and [t][\x01foo\x02] and [\x01foo\x02][]\n", "[foo]: /u \"t\"\n"},
	{"![\x01foo\x02] *[\x01bar\x02]* [\x01baz\x02]\n", "[foo]: /u\n[bar]: <v w> 'x'\n\n[BAZ]: /z\n"},
	{"- [\x01a b\x02]\n\n> [x][\x01a b\x02]\n", "[A  B]: /u\n"},
	{"# [\x01foo\x02]\n\n[\x01foo\x02]\n===\n\n    [foo]\n", "[foo]: /u\n[foo]: /second\n"},
	{"[\x01ß\x02] [\x01ss\x02] [undefined] [\x01foo\x02\n", "[SS]: /u\n[foo]: /v\n"},
	{"[\x01foo\x02]\n\n<!DOCTYPE html>\n", "[foo]: /u\n"},
	{"[\x01foo\x02]\n\n<?php x ?>\n", "[foo]: /u\n"},
	{"[\x01foo\x02]\n\n<!-- c -->\n", "[foo]: /u\n"},
	{"[\x01foo\x02]\n\n<![CDATA[x]]>\n", "[foo]: /u\n"},
	{"[\x01foo\x02]\n\n```\nx\n```\n", "[foo]: /u\n"},
	{"[\x01foo\x02]\n\n<pre>x</pre>\n", "[foo]: /u\n"},
}

// H_c09_refs: conv(defs ⊕ blank ⊕ X) == conv(X ⊕ blank ⊕ defs).
func H_c09_refs() {
	m := WarmMD(vp.ParamStr("cfg", ""))
	r := c09Refs[vp.ParamInt("ref", 0)%len(c09Refs)]
	ws := vp.ParamStr("ws", " ") // replacement for a single space inside labels
	var x []byte
	in := false
	mask, nflip := vp.ParamInt("flipmask", -1), 0
	for i := 0; i < len(r.x); i++ {
		c := r.x[i]
		switch {
		case c == 1:
			in = true
		case c == 2:
			in = false
		case in && c == ' ':
			x = append(x, ws...)
		case in && ((c >= 'a' && c <= 'z') || (c >= 'A' && c <= 'Z')):
			// one solver-enumerated choice per letter (forked, so that the label bytes are concrete on each
			// path); window jobs fix the flips by a seeded mask instead
			var flip bool
			if mask >= 0 {
				flip = mask>>(uint(nflip)%30)&1 == 1
			} else {
				flip = vp.Bool("flip")
			}
			nflip++
			if flip {
				c ^= 0x20
			}
			x = append(x, c)
		default:
			x = append(x, c)
		}
	}
	if pad := vp.ParamInt("pad", 0); pad > 0 {
		// a long unrelated paragraph in front of X: offsets in the second layout exceed every small constant
		pre := make([]byte, 0, pad+2+len(x))
		for i := 0; i < pad; i++ {
			if i%40 == 39 {
				pre = append(pre, '\n')
			} else {
				pre = append(pre, 'x')
			}
		}
		x = append(append(pre, '\n', '\n'), x...)
	}
	// a window of symbolic bytes inside X (outside the claim's exclusions: no code/HTML opener, no new definition)
	if w := vp.ParamInt("window", 0); w > 0 {
		p := vp.ParamInt("pos", 0)
		hole := vp.Bytes("b", w)
		for i := range hole {
			vp.Assume(vp.Not(vp.InSet(hole[i], "`~<:\r")))
		}
		if p+w > len(x) {
			x = append(x[:p:p], hole...)
		} else {
			copy(x[p:], hole)
		}
		closedA2(x)
	}
	vp.Observe("X", x)
	top := append(append([]byte(r.defs), '\n'), x...)
	endsNL := len(x) > 0 && x[len(x)-1] == '\n'
	bot := append([]byte(nil), x...)
	if !endsNL {
		bot = append(bot, '\n')
	}
	bot = append(append(bot, '\n'), r.defs...)
	vp.Observe("src", top)
	var o1, o2 bytes.Buffer
	e1 := m.Convert(top, &o1)
	e2 := m.Convert(bot, &o2)
	vp.Assert(e1 == nil && e2 == nil, "conversion returned an error")
	vp.Observe("top", o1.Bytes())
	vp.Observe("bottom", o2.Bytes())
	vp.Assert(vp.EqBytes(o1.Bytes(), o2.Bytes()), "moving the reference definitions from the top of the document to its end changed the output")
	vp.Reach("done")
}

// closedA2: the indented-code part of closedA only (X templates carry '[').
func closedA2(a []byte) {
	j := len(a)
	if j > 0 && a[j-1] == '\n' {
		j--
	}
	k := j
	for k > 0 && a[k-1] != '\n' {
		k--
	}
	run := 0
	nonblank := false
	for x := k; x < j; x++ {
		vp.Assume(a[x] != '\t')
		if a[x] == ' ' {
			run++
			vp.Assume(run < 4)
		} else {
			run = 0
			nonblank = true
		}
	}
	vp.Assume(nonblank)
}

func init() {
	reg("H_c09_indep", H_c09_indep)
	reg("H_c09_refs", H_c09_refs)
}
