package h

import "github.com/yuin/goldmark/ast"

func init() {
	reg("VerifH_c13_step", ast.VerifH_c13_step)
	reg("VerifH_c13_sort", ast.VerifH_c13_sort)
	reg("VerifH_c13_walk", ast.VerifH_c13_walk)
	reg("VerifH_c13_history", ast.VerifH_c13_history)
}
