package h

import (
	"bytes"

	"github.com/yuin/goldmark/ast"
	"github.com/yuin/goldmark/renderer/html"
	"github.com/yuin/goldmark/text"
	"github.com/yuin/goldmark/util"
	"verifh/vp"
)

// stripBR removes the "<br>" / "<br />" in front of a newline.
func stripBR(b []byte) ([]byte, int) {
	var out []byte
	n := 0
	for i := 0; i < len(b); {
		if b[i] == '<' && i+4 < len(b) && b[i+1] == 'b' && b[i+2] == 'r' {
			if b[i+3] == '>' && b[i+4] == '\n' {
				i += 4
				n++
				continue
			}
			if i+7 < len(b) && b[i+3] == ' ' && b[i+4] == '/' && b[i+5] == '>' && b[i+6] == '\n' {
				i += 6
				n++
				continue
			}
		}
		out = append(out, b[i])
		i++
	}
	return out, n
}

// stripSlash removes " /" in front of '>'.
func stripSlash(b []byte) []byte {
	var out []byte
	for i := 0; i < len(b); {
		if b[i] == ' ' && i+2 < len(b) && b[i+1] == '/' && b[i+2] == '>' {
			i += 2
			continue
		}
		out = append(out, b[i])
		i++
	}
	return out
}

func indexOf(b []byte, from int, pat string) int {
	for i := from; i+len(pat) <= len(b); i++ {
		if string(b[i:i+len(pat)]) == pat {
			return i
		}
	}
	return -1
}

func lastIndexOf(b []byte, pat string) int {
	for i := len(b) - len(pat); i >= 0; i-- {
		if string(b[i:i+len(pat)]) == pat {
			return i
		}
	}
	return -1
}

var c10Opts = []string{"", "xhtml", "hardwraps", "xhtml,hardwraps", "unsafe", "unsafe,xhtml", "unsafe,hardwraps", "unsafe,xhtml,hardwraps"}

// H_c10_options: XHTML, HardWraps and Unsafe are orthogonal rewrites of the same output.
func H_c10_options() {
	ext, po := vp.ParamStr("ext", "core"), vp.ParamStr("popts", "")
	src := Source()
	vp.Observe("src", src)
	var outs [8][]byte
	for k := 0; k < 8; k++ {
		m := WarmMD(ext + "|" + po + "|" + c10Opts[k])
		var o bytes.Buffer
		e := m.Convert(src, &o)
		vp.Assert(e == nil, "conversion returned an error")
		outs[k] = o.Bytes()
	}
	vp.Observe("out", outs[0])
	// the tree (the same for every option set: options are renderer options)
	doc := WarmMD(ext + "|" + po + "|").Parser().Parse(text.NewReader(src))
	soft, hasRaw, hasDanger := 0, false, false
	_ = ast.Walk(doc, func(n ast.Node, entering bool) (ast.WalkStatus, error) {
		if !entering {
			return ast.WalkContinue, nil
		}
		switch x := n.(type) {
		case *ast.Image:
			if html.IsDangerousURL(util.URLEscape(x.Destination, true)) {
				hasDanger = true
			}
			return ast.WalkSkipChildren, nil // alt text is attribute text: no tags
		case *ast.CodeSpan:
			return ast.WalkSkipChildren, nil
		case *ast.Text:
			if x.SoftLineBreak() {
				soft++
			}
		case *ast.RawHTML, *ast.HTMLBlock:
			hasRaw = true
		case *ast.Link:
			if html.IsDangerousURL(util.URLEscape(x.Destination, true)) {
				hasDanger = true
			}
		case *ast.AutoLink:
			if x.AutoLinkType == ast.AutoLinkURL && html.IsDangerousURL(x.URL(src)) {
				hasDanger = true
			}
		}
		return ast.WalkContinue, nil
	})

	// ---- XHTML: bit 0 ----
	for _, base := range []int{0, 2, 4, 6} {
		a, b := outs[base], outs[base|1]
		if base&4 == 0 {
			// safe mode: exact — every void element of a gets " />", nothing else changes
			tokQuiet = true
			toks, ok := tokenizeHTML(a)
			tokQuiet = false
			if ok {
				var want []byte
				at := 0
				for _, t := range toks {
					if t.Kind == tOpen && hVoid[t.Name] {
						want = append(want, a[at:t.End-1]...)
						want = append(want, " />"...)
						at = t.End
					}
				}
				want = append(want, a[at:]...)
				if base == 0 {
					vp.Observe("xhtml", b)
				}
				vp.Assert(vp.EqBytes(b, want), "XHTML output is not the HTML5 output with void elements written ' />'")
				vp.Reach("xhtml-exact")
			}
		} else {
			vp.Assert(vp.EqBytes(stripSlash(b), stripSlash(a)), "XHTML changes more than ' />' (unsafe mode)")
		}
	}
	// ---- HardWraps: bit 1 ----
	for _, base := range []int{0, 1, 4, 5} {
		a, b := outs[base], outs[base|2]
		sa, na := stripBR(a)
		sb, nb := stripBR(b)
		if base == 0 {
			vp.Observe("hardwraps", b)
		}
		vp.Assert(vp.EqBytes(sa, sb), "HardWraps changes more than the <br> before line breaks")
		vp.Assert(nb-na == soft, "HardWraps does not add exactly one <br> per soft line break")
	}
	// ---- Unsafe: bit 2 ----
	for _, base := range []int{0, 1, 2, 3} {
		a, b := outs[base], outs[base|4]
		if base == 0 {
			vp.Observe("unsafe", b)
		}
		if !hasRaw && !hasDanger {
			vp.Assert(vp.EqBytes(a, b), "Unsafe changes a document without raw HTML or dangerous destinations")
			vp.Reach("unsafe-equal")
			continue
		}
		// only the fragments differ: what precedes the first placeholder / emptied URL, and what follows the last, is equal
		first, last, lastLen := -1, -1, 0
		for _, pat := range []string{"<!-- raw HTML omitted -->", "href=\"\"", "src=\"\""} {
			if i := indexOf(a, 0, pat); i >= 0 && (first < 0 || i < first) {
				first = i
			}
			if i := lastIndexOf(a, pat); i >= 0 && i > last {
				last, lastLen = i, len(pat)
			}
		}
		if first < 0 {
			vp.Assert(vp.EqBytes(a, b), "Unsafe changes output although the safe output has no placeholder or emptied URL")
			continue
		}
		vp.Assert(len(b) >= first && vp.EqBytes(a[:first], b[:first]), "Unsafe changes output before the first raw-HTML/URL fragment")
		tail := a[last+lastLen:]
		if a[last] == '<' && len(tail) > 0 && tail[0] == '\n' {
			tail = tail[1:] // an HTML block placeholder carries its own newline; the raw lines bring theirs
		}
		vp.Assert(len(b) >= len(tail) && vp.EqBytes(tail, b[len(b)-len(tail):]), "Unsafe changes output after the last raw-HTML/URL fragment")
		// a single emptied URL: what stands in its place with Unsafe is exactly that one attribute with the URL
		// (quotes inside a URL are written &quot;), nothing else - a title or another attribute behind it is the same in both
		if first == last && a[first] != '<' && len(b) >= first+len(tail) {
			mid := b[first : len(b)-len(tail)]
			attr := "href=\""
			if a[first] == 's' {
				attr = "src=\""
			}
			okMid := len(mid) > len(attr) && vp.EqBytes(mid[:len(attr)], []byte(attr)) && mid[len(mid)-1] == '"'
			vp.Assert(okMid, "Unsafe changes more than the emptied URL of the link/image")
			if okMid {
				for i := len(attr); i < len(mid)-1; i++ {
					vp.Assert(mid[i] != '"', "Unsafe changes more than the emptied URL of the link/image")
				}
			}
		}
		vp.Reach("unsafe-fragments")
	}
	vp.Reach("done")
}

func init() { reg("H_c10_options", H_c10_options) }
