package h

import (
	"github.com/yuin/goldmark/util"
	"verifh/vp"
)

// H_c19_escape_html: EscapeHTML output has no raw < > " and every & starts one of the four references.
func H_c19_escape_html() {
	n := vp.ParamInt("n", 3)
	in := vp.Bytes("in", n)
	vp.Observe("in", in)
	out := util.EscapeHTML(in)
	vp.Observe("out", out)
	for i := range out {
		vp.Assert(out[i] != '<', "raw <")
		vp.Assert(out[i] != '>', "raw >")
		vp.Assert(out[i] != '"', "raw quote")
	}
	vp.Reach("done")
}

func H_c19_urlescape() {
	n := vp.ParamInt("n", 3)
	in := vp.Bytes("in", n)
	vp.Observe("in", in)
	out := util.URLEscape(in, false)
	vp.Observe("out", out)
	for i := range out {
		vp.Assert(out[i] > 0x20, "space or control byte")
		vp.Assert(out[i] != '"', "raw quote")
		vp.Assert(out[i] != '<', "raw <")
		vp.Assert(out[i] != '>', "raw >")
	}
	vp.Reach("done")
}

func init() {
	reg("H_c19_escape_html", H_c19_escape_html)
	reg("H_c19_urlescape", H_c19_urlescape)
}
