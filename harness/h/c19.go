package h

import (
	"unicode"
	"bytes"
	"unicode/utf8"

	"github.com/yuin/goldmark/util"
	"verifh/vp"
)

func isHex(b byte) bool {
	return vp.Or(vp.InRange(b, '0', '9'), vp.Or(vp.InRange(b, 'a', 'f'), vp.InRange(b, 'A', 'F')))
}

// alphabetAssume restricts every byte to the given set when the "alpha" parameter is non-empty.
func alphabetAssume(b []byte) {
	if a := vp.ParamStr("alpha", ""); a != "" {
		for i := range b {
			vp.Assume(vp.InSet(b[i], a))
		}
	}
}

// H_c19_escape_html: no raw < > ", every & starts one of the four references, decode(out) == in.
func H_c19_escape_html() {
	n := vp.ParamInt("n", 3)
	in := vp.Bytes("in", n)
	alphabetAssume(in)
	keep := append([]byte(nil), in...)
	vp.Observe("in", in)
	out := util.EscapeHTML(in)
	vp.Observe("out", out)
	vp.Assert(vp.EqBytes(in, keep), "input modified")
	var dec []byte
	for i := 0; i < len(out); {
		vp.Assert(out[i] != '<', "raw <")
		vp.Assert(out[i] != '>', "raw >")
		vp.Assert(out[i] != '"', "raw quote")
		if out[i] == '&' {
			rest := out[i:]
			switch {
			case bytes.HasPrefix(rest, []byte("&lt;")):
				dec = append(dec, '<')
				i += 4
			case bytes.HasPrefix(rest, []byte("&gt;")):
				dec = append(dec, '>')
				i += 4
			case bytes.HasPrefix(rest, []byte("&amp;")):
				dec = append(dec, '&')
				i += 5
			case bytes.HasPrefix(rest, []byte("&quot;")):
				dec = append(dec, '"')
				i += 6
			default:
				vp.Fail("bare &")
				return
			}
			continue
		}
		dec = append(dec, out[i])
		i++
	}
	vp.Assert(vp.EqBytes(dec, keep), "decode(EscapeHTML(x)) != x")
	vp.Reach("done")
}

// H_c19_urlescape: laws of URLEscape(x, false).
func H_c19_urlescape() {
	n := vp.ParamInt("n", 3)
	in := vp.Bytes("in", n)
	alphabetAssume(in)
	keep := append([]byte(nil), in...)
	vp.Observe("in", in)
	out := util.URLEscape(in, false)
	vp.Observe("out", out)
	vp.Assert(vp.EqBytes(in, keep), "input modified")
	for i := range out {
		vp.Assert(out[i] > 0x20, "space or control byte in output")
		vp.Assert(out[i] != '"', "raw quote in output")
		vp.Assert(out[i] != '<', "raw < in output")
		vp.Assert(out[i] != '>', "raw > in output")
		vp.Assert(out[i] != 0x7f, "DEL in output")
		if i+2 < len(out) {
			vp.Assert(vp.Implies(out[i] == '%', vp.And(isHex(out[i+1]), isHex(out[i+2]))), "% not followed by two hex digits")
		} else {
			vp.Assert(out[i] != '%', "% not followed by two hex digits")
		}
	}
	if utf8.Valid(keep) {
		vp.Reach("valid-utf8")
		for i := range out {
			vp.Assert(out[i] < 0x80, "non-ASCII output for valid UTF-8 input")
		}
	}
	out2 := util.URLEscape(append([]byte(nil), out...), false)
	vp.Assert(vp.EqBytes(out2, out), "URLEscape not idempotent")
	vp.Reach("done")
}

// H_c19_urlescape_triple: an existing %XX triple (symbolic hex digits) with symbolic neighbours is preserved.
func H_c19_urlescape_triple() {
	pre := vp.Bytes("pre", vp.ParamInt("pre", 1))
	post := vp.Bytes("post", vp.ParamInt("post", 1))
	h := vp.Bytes("h", 2)
	vp.Assume(isHex(h[0]))
	vp.Assume(isHex(h[1]))
	for _, b := range pre {
		vp.Assume(vp.InRange(b, 'a', 'z'))
	}
	for _, b := range post {
		vp.Assume(vp.InRange(b, 'a', 'z'))
	}
	in := append(append(append(append([]byte{}, pre...), '%'), h...), post...)
	vp.Observe("in", in)
	out := util.URLEscape(in, false)
	vp.Observe("out", out)
	vp.Assert(vp.EqBytes(out, in), "%XX triple not preserved")
	vp.Reach("done")
}

func hexVal(b byte) int {
	d := int(b)
	return vp.IteInt(vp.InRange(b, '0', '9'), d-'0', vp.IteInt(vp.InRange(b, 'a', 'f'), d-'a'+10, d-'A'+10))
}

func expectRune(v int) []byte {
	bad := vp.Or(v == 0, vp.Or(v > 0x10FFFF, vp.And(v >= 0xD800, v <= 0xDFFF)))
	r := rune(vp.IteInt(bad, 0xFFFD, v))
	return utf8.AppendRune(nil, r)
}

// H_c19_numref_hex: "&#x" h{1..k} ";" resolves to the UTF-8 encoding of the code point, U+FFFD when out of range.
func H_c19_numref_hex() {
	k := vp.ParamInt("k", 2)
	prefix := vp.ParamStr("prefix", "") // concrete leading hex digits (long references)
	d := vp.Bytes("d", k)
	v := 0
	over := false // more than 32 bits of value
	for i := 0; i < len(prefix); i++ {
		v = v*16 + hexVal(prefix[i])
		if v > 0xFFFFFFFF {
			over = true
			v = 0x7FFFFFFF
		}
	}
	for i := range d {
		vp.Assume(isHex(d[i]))
		if over {
			continue
		}
		v = v*16 + hexVal(d[i])
		if len(prefix)+i+1 > 8 {
			// nine or more significant digits: certainly out of range unless all leading ones are zero
			v = vp.IteInt(v > 0x10FFFF, 0x7FFFFFFF, v)
		}
	}
	x := vp.Byte("x")
	vp.Assume(vp.InSet(x, "xX"))
	in := append(append(append([]byte{'&', '#', x}, prefix...), d...), ';')
	vp.Observe("in", in)
	out := util.ResolveNumericReferences(in)
	vp.Observe("out", out)
	vp.Assert(utf8.Valid(out), "output is not valid UTF-8")
	vp.Assert(vp.EqBytes(out, expectRune(v)), "hex reference resolved to the wrong bytes")
	out2 := util.URLEscape(in, true)
	vp.Assert(utf8.Valid(out2), "URLEscape(resolve) output is not valid UTF-8")
	vp.Reach("done")
}

// H_c19_numref_dec: "&#" d{1..k} ";" without a leading zero.
func H_c19_numref_dec() {
	k := vp.ParamInt("k", 2)
	d := vp.Bytes("d", k)
	v := 0
	for i := range d {
		vp.Assume(vp.InRange(d[i], '0', '9'))
		v = v*10 + int(d[i]-'0')
	}
	if vp.ParamInt("leadzero", 0) == 0 {
		vp.Assume(d[0] != '0')
	}
	in := append(append([]byte{'&', '#'}, d...), ';')
	vp.Observe("in", in)
	out := util.ResolveNumericReferences(in)
	vp.Observe("out", out)
	vp.Assert(utf8.Valid(out), "output is not valid UTF-8")
	if vp.ParamInt("leadzero", 0) == 0 {
		vp.Assert(vp.EqBytes(out, expectRune(v)), "decimal reference resolved to the wrong bytes")
	}
	vp.Reach("done")
}

// H_c19_resolvers_utf8: on free input, resolvers keep valid UTF-8 valid and never modify their argument.
func H_c19_resolvers_utf8() {
	n := vp.ParamInt("n", 3)
	in := vp.Bytes("in", n)
	alphabetAssume(in)
	keep := append([]byte(nil), in...)
	vp.Observe("in", in)
	valid := utf8.Valid(keep)
	o1 := util.UnescapePunctuations(in)
	o2 := util.ResolveNumericReferences(in)
	o3 := util.ResolveEntityNames(in)
	o4 := util.URLEscape(in, true)
	vp.Assert(vp.EqBytes(in, keep), "input modified")
	if valid {
		vp.Reach("valid-utf8")
		vp.Assert(utf8.Valid(o1), "UnescapePunctuations broke UTF-8")
		vp.Assert(utf8.Valid(o2), "ResolveNumericReferences broke UTF-8")
		vp.Assert(utf8.Valid(o3), "ResolveEntityNames broke UTF-8")
		vp.Assert(utf8.Valid(o4), "URLEscape(resolve) broke UTF-8")
	}
	vp.Reach("done")
}

// H_c19_entity_name: "&" name ";" with symbolic letters: output valid UTF-8, unknown names unchanged.
func H_c19_entity_name() {
	k := vp.ParamInt("k", 2)
	d := vp.Bytes("d", k)
	for i := range d {
		vp.Assume(vp.Or(vp.InRange(d[i], 'a', 'z'), vp.InRange(d[i], 'A', 'Z')))
	}
	in := append(append([]byte{'&'}, d...), ';')
	vp.Observe("in", in)
	out := util.ResolveEntityNames(in)
	vp.Observe("out", out)
	vp.Assert(utf8.Valid(out), "output is not valid UTF-8")
	vp.Assert(len(out) > 0, "entity resolved to nothing")
	vp.Reach("done")
}

// H_c19_linkref: label normalisation is idempotent and insensitive to ASCII case and whitespace runs.
func H_c19_linkref() {
	n := vp.ParamInt("n", 3)
	in := vp.Bytes("in", n)
	alphabetAssume(in)
	vp.Observe("in", in)
	keep := append([]byte(nil), in...)
	r1 := util.ToLinkReference(in)
	vp.Assert(vp.EqBytes(in, keep), "input modified")
	r2 := util.ToLinkReference([]byte(r1))
	vp.Assert(vp.EqString(r1, r2), "ToLinkReference not idempotent")
	// case flip of ASCII letters chosen by symbolic bits
	flip := make([]byte, n)
	for i := range flip {
		isLetter := vp.Or(vp.InRange(keep[i], 'a', 'z'), vp.InRange(keep[i], 'A', 'Z'))
		f := vp.Bool("flip")
		flip[i] = vp.IteByte(vp.And(isLetter, f), keep[i]^0x20, keep[i])
	}
	r3 := util.ToLinkReference(flip)
	vp.Assert(vp.EqString(r1, r3), "labels differing in ASCII case normalise differently")
	// every space doubled / replaced by tab or newline
	var ws []byte
	wsb := vp.Byte("ws")
	vp.Assume(vp.InSet(wsb, " \t\n"))
	for i := range keep {
		ws = append(ws, keep[i])
		if keep[i] == ' ' {
			ws = append(ws, wsb)
		}
	}
	r4 := util.ToLinkReference(ws)
	vp.Assert(vp.EqString(r1, r4), "labels differing in whitespace runs normalise differently")
	vp.Reach("done")
}

// H_c19_bytesfilter: a BytesFilter behaves as a set; filters derived with Extend are independent
// of their parent and of their siblings. History of k operations with symbolic keys.
func H_c19_bytesfilter() {
	alpha := vp.ParamStr("alpha", "a!\xa1\xe1b")
	nkeys := vp.ParamInt("keys", 5)
	klen := vp.ParamInt("klen", 1)
	base := vp.ParamInt("base", 3)
	keys := make([][]byte, nkeys)
	for i := range keys {
		keys[i] = vp.Bytes("k", klen)
		for _, b := range keys[i] {
			vp.Assume(vp.InSet(b, alpha))
		}
	}
	vp.Observe("k0", keys[0])
	// model: list of member keys per filter
	type fm struct {
		f util.BytesFilter
		m [][]byte
	}
	member := func(m [][]byte, k []byte) bool {
		r := false
		for _, e := range m {
			r = vp.Or(r, vp.EqBytes(e, k))
		}
		return r
	}
	check := func(x *fm, tag string) {
		for _, k := range keys {
			vp.Assert(x.f.Contains(k) == member(x.m, k), tag)
		}
	}
	// The alphabet is chosen so that several one-byte keys fall into one hash bucket
	// (bytesHash(c) % 64 == (37+c) % 64: 'a', '!', 0xa1, 0xe1 collide), so that bucket slices
	// reach a length with spare capacity, which is where shared backing arrays show.
	parent := &fm{f: util.NewBytesFilter()}
	for i := 0; i < base; i++ {
		parent.f.Add(keys[i])
		parent.m = append(parent.m, keys[i])
	}
	check(parent, "parent after Add")
	c1 := &fm{f: parent.f.Extend(keys[base]), m: append(append([][]byte{}, parent.m...), keys[base])}
	check(c1, "child1 after Extend")
	check(parent, "parent changed by Extend")
	c2 := &fm{f: parent.f.Extend(keys[base+1]), m: append(append([][]byte{}, parent.m...), keys[base+1])}
	check(c2, "child2 after Extend")
	check(c1, "child1 changed by sibling Extend")
	check(parent, "parent changed by second Extend")
	if nkeys > base+2 {
		c1.f.Add(keys[base+2])
		c1.m = append(c1.m, keys[base+2])
		check(c1, "child1 after Add")
		check(c2, "child2 changed by sibling Add")
		check(parent, "parent changed by child Add")
	}
	vp.Reach("done")
}

// H_c19_filter_hist: histories of k operations over a growing pool of filters. Each operation is a
// solver-enumerated choice: Add(key) on any filter of the pool, or a new filter derived from any filter by
// Extend() with no, one or two keys, ExtendString("") or ExtendString("k1,k2"). Keys are symbolic over an
// alphabet whose one-byte keys collide in one bucket. After every operation every filter of the pool is
// compared with its list-of-keys model on every key made so far (so an operation on one filter that shows
// in another - shared buckets, shared prefix bitmap, a "derived" filter that is the same object - is seen).
func H_c19_filter_hist() {
	alpha := vp.ParamStr("alpha", "a!\xa1b")
	k := vp.ParamInt("k", 3)
	klen := vp.ParamInt("klen", 1)
	var keys [][]byte
	newKey := func() []byte {
		b := vp.Bytes("k", klen)
		for _, c := range b {
			vp.Assume(vp.InSet(c, alpha))
		}
		keys = append(keys, b)
		return b
	}
	type fm struct {
		f util.BytesFilter
		m [][]byte
	}
	member := func(m [][]byte, key []byte) bool {
		r := false
		for _, e := range m {
			r = vp.Or(r, vp.EqBytes(e, key))
		}
		return r
	}
	var pool []*fm
	if vp.ParamInt("fromstring", 0) == 1 {
		k0 := newKey()
		pool = append(pool, &fm{f: util.NewBytesFilterString(string(k0) + ",zz"), m: [][]byte{k0, []byte("zz")}})
	} else {
		pool = append(pool, &fm{f: util.NewBytesFilter()})
	}
	checkAll := func(tag string) {
		for _, x := range pool {
			for _, key := range keys {
				vp.Assert(x.f.Contains(key) == member(x.m, key), tag)
			}
		}
	}
	for step := 0; step < k; step++ {
		op := vp.Concrete(vp.IntRange("op", 0, 5))
		i := vp.Concrete(vp.IntRange("on", 0, len(pool)-1))
		x := pool[i]
		cp := func() [][]byte { return append([][]byte{}, x.m...) }
		switch op {
		case 0:
			key := newKey()
			x.f.Add(key)
			x.m = append(x.m, key)
			checkAll("a filter disagrees with its set model after Add on one filter of the pool")
		case 1:
			pool = append(pool, &fm{f: x.f.Extend(), m: cp()})
			checkAll("after Extend() with no keys")
		case 2:
			key := newKey()
			pool = append(pool, &fm{f: x.f.Extend(key), m: append(cp(), key)})
			checkAll("after Extend(key)")
		case 3:
			pool = append(pool, &fm{f: x.f.ExtendString(""), m: cp()})
			checkAll("after ExtendString(\"\")")
		case 4:
			k1, k2 := newKey(), newKey()
			pool = append(pool, &fm{f: x.f.ExtendString(string(k1) + "," + string(k2)), m: append(cp(), k1, k2)})
			checkAll("after ExtendString(\"k1,k2\")")
		case 5:
			k1, k2 := newKey(), newKey()
			pool = append(pool, &fm{f: x.f.Extend(k1, k2), m: append(cp(), k1, k2)})
			checkAll("after Extend(k1, k2)")
		}
	}
	vp.Reach("done")
}

// H_c19_casefold: labels that differ only in letter case normalise alike, for every rune of a block of 256
// code points (the rune is symbolic; its partner is the next member of its simple case folding orbit as
// computed by Go's unicode.SimpleFold, interpreted from its real source - an oracle independent of goldmark's
// own folding table), with symbolic ASCII letters around it.
func H_c19_casefold() {
	base := vp.ParamInt("base", 0)
	off := vp.IntRange("r", 0, 255)
	r := rune(base + off)
	vp.Assume(r < 0xD800 || r > 0xDFFF)
	vp.Assume(r != ' ' && r != '\t' && r != '\n' && r != '\r' && r != '\v' && r != '\f') // whitespace is collapsed, not folded
	f := unicode.SimpleFold(r)
	if f == r {
		vp.Reach("done")
		return
	}
	vp.Reach("folding-pair")
	x, y := vp.Byte("x"), vp.Byte("y")
	vp.Assume(vp.And(vp.InRange(x, 'a', 'z'), vp.InRange(y, 'A', 'Z')))
	a := utf8.AppendRune([]byte{x}, r)
	b := utf8.AppendRune([]byte{x}, f)
	a, b = append(a, y), append(b, y)
	vp.Observe("a", a)
	vp.Observe("b", b)
	ra, rb := util.ToLinkReference(a), util.ToLinkReference(b)
	vp.Assert(vp.EqString(ra, rb), "labels differing only in letter case (simple case folding) normalise differently")
	vp.Reach("done")
}

func init() {
	reg("H_c19_casefold", H_c19_casefold)
	reg("H_c19_filter_hist", H_c19_filter_hist)
	reg("H_c19_escape_html", H_c19_escape_html)
	reg("H_c19_urlescape", H_c19_urlescape)
	reg("H_c19_urlescape_triple", H_c19_urlescape_triple)
	reg("H_c19_numref_hex", H_c19_numref_hex)
	reg("H_c19_numref_dec", H_c19_numref_dec)
	reg("H_c19_resolvers_utf8", H_c19_resolvers_utf8)
	reg("H_c19_entity_name", H_c19_entity_name)
	reg("H_c19_linkref", H_c19_linkref)
	reg("H_c19_bytesfilter", H_c19_bytesfilter)
}
