package h

import "verifh/vp"

// An independent strict tokenizer for the HTML that goldmark emits in safe mode (DESIGN 3 C03).
// It is ordinary Go executed symbolically over the output: the output length is concrete on every
// path and each byte is a constant or a term over the input, so a comparison forks only where an
// input byte could reach that position unescaped — and every such possibility is then judged by
// the grammar below (a violation), not assumed away.

type hAttr struct {
	Name   []byte
	Val    []byte
	HasVal bool
}

type hTok struct {
	Kind       int // 0 text, 1 start tag, 2 end tag, 3 comment
	Name       string
	Attrs      []hAttr
	SelfClose  bool
	Start, End int
}

const (
	tText = iota
	tOpen
	tClose
	tComment
)

var hVoid = map[string]bool{"br": true, "hr": true, "img": true, "input": true}

// element names the built-in renderers can write
var hElements = map[string]bool{
	"p": true, "h1": true, "h2": true, "h3": true, "h4": true, "h5": true, "h6": true, "blockquote": true, "pre": true, "code": true,
	"ul": true, "ol": true, "li": true, "hr": true, "br": true, "em": true, "strong": true, "a": true, "img": true,
	"del": true, "table": true, "thead": true, "tbody": true, "tr": true, "th": true, "td": true, "input": true,
	"div": true, "sup": true, "dl": true, "dt": true, "dd": true,
}

// attribute names: what the renderers write themselves plus the union of their attribute allow-lists
var hAttrNames = splitN("href,src,alt,title,start,type,checked,disabled,align,style,class,id,role,"+
	"accesskey,autocapitalize,autofocus,contenteditable,dir,draggable,enterkeyhint,hidden,inert,inputmode,is,itemid,itemprop,itemref,itemscope,itemtype,lang,part,slot,spellcheck,tabindex,translate,"+
	"cite,reversed,value,color,noshade,size,width,download,hreflang,media,ping,referrerpolicy,rel,shape,target,"+
	"border,crossorigin,decoding,height,importance,intrinsicsize,ismap,loading,sizes,srcset,usemap,"+
	"bgcolor,cellpadding,cellspacing,frame,rules,summary,char,charoff,valign,abbr,axis,colspan,headers,rowspan,scope", ',')

const rawOmitted = "<!-- raw HTML omitted -->"

func isAlpha(c byte) bool { return (c >= 'a' && c <= 'z') || (c >= 'A' && c <= 'Z') }
func isDigit(c byte) bool { return c >= '0' && c <= '9' }
func isHexD(c byte) bool {
	return (c >= '0' && c <= '9') || (c >= 'a' && c <= 'f') || (c >= 'A' && c <= 'F')
}

// charRefEnd returns the index just behind a well-formed character reference starting at out[i]=='&', or -1.
func charRefEnd(out []byte, i int) int {
	j := i + 1
	if j >= len(out) {
		return -1
	}
	if out[j] == '#' {
		j++
		if j < len(out) && (out[j] == 'x' || out[j] == 'X') {
			j++
			k := j
			for j < len(out) && isHexD(out[j]) {
				j++
			}
			if j == k || j >= len(out) || out[j] != ';' {
				return -1
			}
			return j + 1
		}
		k := j
		for j < len(out) && isDigit(out[j]) {
			j++
		}
		if j == k || j >= len(out) || out[j] != ';' {
			return -1
		}
		return j + 1
	}
	if !isAlpha(out[j]) {
		return -1
	}
	for j < len(out) && (isAlpha(out[j]) || isDigit(out[j])) {
		j++
	}
	if j >= len(out) || out[j] != ';' {
		return -1
	}
	return j + 1
}

type hErr struct{ msg string }

// tokQuiet makes tokenizeHTML return false on a lexical error without reporting it (harnesses whose
// subject is not the lexical clause of C03 count such paths with Reach("untokenizable")).
var tokQuiet = false

func tokFail(msg string) {
	if tokQuiet {
		vp.Reach("untokenizable")
		return
	}
	vp.Fail(msg)
}

// tokenizeHTML splits safe-mode output into tokens, asserting the lexical clauses of C03 on the way:
// text has no raw '<'; attribute values have no raw '"'; every '&' starts a well-formed reference;
// the only comment is the fixed placeholder; tags are syntactically complete.
// It returns nil, false after reporting the first lexical error through vp.Fail.
func tokenizeHTML(out []byte) ([]hTok, bool) {
	var toks []hTok
	i := 0
	n := len(out)
	for i < n {
		c := out[i]
		if c != '<' {
			// text run
			st := i
			for i < n && out[i] != '<' {
				if out[i] == '&' {
					e := charRefEnd(out, i)
					if e < 0 {
						tokFail("'&' in text does not start a well-formed character reference")
						return nil, false
					}
					i = e
					continue
				}
				i++
			}
			toks = append(toks, hTok{Kind: tText, Start: st, End: i})
			continue
		}
		st := i
		if i+3 < n && out[i+1] == '!' {
			// the only comment allowed is the placeholder
			if i+len(rawOmitted) <= n && string(out[i:i+len(rawOmitted)]) == rawOmitted {
				i += len(rawOmitted)
				toks = append(toks, hTok{Kind: tComment, Start: st, End: i})
				continue
			}
			tokFail("comment or declaration other than the raw-HTML placeholder")
			return nil, false
		}
		i++
		closing := false
		if i < n && out[i] == '/' {
			closing = true
			i++
		}
		ns := i
		for i < n && (isAlpha(out[i]) || (i > ns && isDigit(out[i]))) {
			i++
		}
		if i == ns {
			tokFail("raw '<' that does not start a tag")
			return nil, false
		}
		t := hTok{Kind: tOpen, Name: string(out[ns:i]), Start: st}
		if closing {
			t.Kind = tClose
			if i >= n || out[i] != '>' {
				tokFail("malformed end tag")
				return nil, false
			}
			i++
			t.End = i
			toks = append(toks, t)
			continue
		}
		for {
			if i >= n {
				tokFail("unterminated tag")
				return nil, false
			}
			if out[i] == '>' {
				i++
				break
			}
			if out[i] != ' ' {
				tokFail("unexpected byte inside a tag")
				return nil, false
			}
			i++
			if i+1 < n && out[i] == '/' && out[i+1] == '>' {
				t.SelfClose = true
				i += 2
				break
			}
			as := i
			for i < n && out[i] != '=' && out[i] != ' ' && out[i] != '>' && out[i] != '"' && out[i] != '/' && out[i] != '<' && out[i] != '\'' && out[i] > 0x20 {
				i++
			}
			if i == as {
				tokFail("empty attribute name")
				return nil, false
			}
			a := hAttr{Name: out[as:i]}
			if i < n && out[i] == '=' {
				if i+1 >= n || out[i+1] != '"' {
					tokFail("attribute value is not double-quoted")
					return nil, false
				}
				i += 2
				vs := i
				for i < n && out[i] != '"' {
					if out[i] == '&' {
						e := charRefEnd(out, i)
						if e < 0 {
							tokFail("'&' in an attribute value does not start a well-formed character reference")
							return nil, false
						}
						i = e
						continue
					}
					i++
				}
				if i >= n {
					tokFail("unterminated attribute value")
					return nil, false
				}
				a.Val, a.HasVal = out[vs:i], true
				i++
			}
			t.Attrs = append(t.Attrs, a)
		}
		t.End = i
		toks = append(toks, t)
	}
	return toks, true
}

func attrNameOK(name []byte) bool {
	if len(name) >= 5 && string(name[:5]) == "data-" {
		// data-*: the rest must be XML-name characters
		ok := true
		for _, c := range name[5:] {
			ok = vp.And(ok, vp.Or(vp.Or(vp.InRange(c, 'a', 'z'), vp.InRange(c, 'A', 'Z')), vp.Or(vp.InRange(c, '0', '9'), vp.InSet(c, "-_.:"))))
		}
		return ok
	}
	s := string(name)
	for _, a := range hAttrNames {
		if s == a {
			return true
		}
	}
	return false
}

// checkStructure asserts the structural clauses of C03 over a token stream: names from the fixed
// vocabulary, proper nesting, everything closed; with xhtml, void elements are written " />" and
// nothing else is.
func checkStructure(toks []hTok, xhtml bool) {
	var stack []string
	for _, t := range toks {
		switch t.Kind {
		case tOpen:
			if !hElements[t.Name] {
				vp.Fail("element outside the renderer's vocabulary: " + t.Name)
				return
			}
			seen := map[string]bool{}
			for _, a := range t.Attrs {
				vp.Assert(attrNameOK(a.Name), "attribute name outside the renderer's vocabulary")
				if !vp.IsSymbolic(string(a.Name)) {
					vp.Assert(!seen[string(a.Name)] || !xhtml, "duplicate attribute (ill-formed XML)")
					seen[string(a.Name)] = true
				}
				if xhtml {
					vp.Assert(a.HasVal, "attribute without a value in XHTML output")
				}
			}
			if hVoid[t.Name] {
				if xhtml {
					vp.Assert(t.SelfClose, "void element not written ' />' in XHTML output")
				} else {
					vp.Assert(!t.SelfClose, "void element written ' />' in HTML5 output")
				}
			} else {
				vp.Assert(!t.SelfClose, "non-void element written as self-closing")
				stack = append(stack, t.Name)
			}
		case tClose:
			if len(stack) == 0 || stack[len(stack)-1] != t.Name {
				vp.Fail("end tag does not match the innermost open element: " + t.Name)
				return
			}
			stack = stack[:len(stack)-1]
		}
	}
	vp.Assert(len(stack) == 0, "element left open at the end of the output")
}

func (t *hTok) attr(name string) ([]byte, bool) {
	for _, a := range t.Attrs {
		if !vp.IsSymbolic(string(a.Name)) && string(a.Name) == name {
			return a.Val, true
		}
	}
	return nil, false
}
