package h

import (
	"bytes"

	"verifh/vp"
)

// noTrigger assumes (branch-free, over every position) that src lacks the trigger set of ext.
func noTrigger(ext string, src []byte) {
	n := len(src)
	none := func(set string) {
		for i := 0; i < n; i++ {
			vp.Assume(vp.Not(vp.InSet(src[i], set)))
		}
	}
	switch ext {
	case "strike":
		none("~")
	case "table":
		none("-")
	case "tasklist":
		none("[")
	case "footnote":
		for i := 0; i+1 < n; i++ {
			vp.Assume(vp.Not(vp.And(src[i] == '[', src[i+1] == '^')))
		}
	case "deflist":
		none(":")
	case "typographer":
		none("'\"-.<>")
	case "linkify":
		none(":@")
		for i := 0; i+3 < n; i++ {
			w := vp.And(vp.And(src[i] == 'w', src[i+1] == 'w'), vp.And(src[i+2] == 'w', src[i+3] == '.'))
			vp.Assume(vp.Not(w))
		}
	case "cjk", "cjkcss3", "cjkesc":
		for i := 0; i < n; i++ {
			vp.Assume(src[i] < 0x80)
		}
		for i := 0; i+1 < n; i++ {
			vp.Assume(vp.Not(vp.And(src[i] == '\\', src[i+1] == ' ')))
		}
	default:
		panic("noTrigger: unknown extension " + ext)
	}
}

// H_c11_conservative: enabling extension X does not change the rendering of a document that
// contains none of X's trigger characters. cfg "base|popts|ropts" is the configuration without X.
func H_c11_conservative() {
	ext := vp.ParamStr("ext", "strike")
	base := vp.ParamStr("base", "core")
	po, ro := vp.ParamStr("popts", ""), vp.ParamStr("ropts", "")
	with := ext
	if base != "core" && base != "" {
		with = base + "," + ext
	}
	mWith := WarmMD(with + "|" + po + "|" + ro)
	mBase := WarmMD(base + "|" + po + "|" + ro)
	src := Source()
	noTrigger(ext, src)
	vp.Observe("src", src)
	var o1, o2 bytes.Buffer
	e1 := mWith.Convert(src, &o1)
	e2 := mBase.Convert(src, &o2)
	vp.Assert(e1 == nil && e2 == nil, "conversion returned an error")
	vp.Observe("with", o1.Bytes())
	vp.Observe("without", o2.Bytes())
	vp.Assert(vp.EqBytes(o1.Bytes(), o2.Bytes()), "enabling the extension changed a document without its trigger characters")
	vp.Reach("done")
}

// H_c11_gfm: extension.GFM behaves exactly as Table, Strikethrough, Linkify and TaskList together.
func H_c11_gfm() {
	po, ro := vp.ParamStr("popts", ""), vp.ParamStr("ropts", "")
	extra := vp.ParamStr("extra", "")
	a, b := "gfm", "table,strike,linkify,tasklist"
	if extra != "" {
		a, b = a+","+extra, b+","+extra
	}
	mA := WarmMD(a + "|" + po + "|" + ro)
	mB := WarmMD(b + "|" + po + "|" + ro)
	src := Source()
	vp.Observe("src", src)
	var o1, o2 bytes.Buffer
	e1 := mA.Convert(src, &o1)
	e2 := mB.Convert(src, &o2)
	vp.Assert(e1 == nil && e2 == nil, "conversion returned an error")
	vp.Observe("with", o1.Bytes())
	vp.Observe("without", o2.Bytes())
	vp.Assert(vp.EqBytes(o1.Bytes(), o2.Bytes()), "extension.GFM differs from its four member extensions")
	vp.Reach("done")
}

func init() {
	reg("H_c11_conservative", H_c11_conservative)
	reg("H_c11_gfm", H_c11_gfm)
}
