package h

import (
	"bytes"

	"verifh/vp"
)

// H_c03_safe: safe-mode output is inert, well-nested markup from the renderer's fixed vocabulary.
func H_c03_safe() {
	cfg := vp.ParamStr("cfg", "")
	m := WarmMD(cfg)
	xhtml := cfgHas(cfg, 2, "xhtml")
	src := Source()
	vp.Observe("src", src)
	var o bytes.Buffer
	e := m.Convert(src, &o)
	vp.Assert(e == nil, "conversion returned an error")
	out := o.Bytes()
	vp.Observe("out", out)
	toks, ok := tokenizeHTML(out)
	if !ok {
		return
	}
	checkStructure(toks, xhtml)
	if xhtml {
		for _, t := range toks {
			if t.Kind != tOpen {
				continue
			}
			for _, a := range t.Attrs {
				for _, c := range a.Val {
					vp.Assert(c != '<', "raw '<' inside an attribute value (ill-formed XML)")
				}
			}
		}
	}
	vp.Reach("done")
}

// cfgHas reports whether field i of a configuration string lists the option.
func cfgHas(cfg string, i int, opt string) bool {
	parts := splitN(cfg, '|')
	if i >= len(parts) {
		return false
	}
	for _, o := range splitN(parts[i], ',') {
		if o == opt {
			return true
		}
	}
	return false
}

func init() { reg("H_c03_safe", H_c03_safe) }
