package h

import (
	"bytes"

	"github.com/yuin/goldmark/ast"
	east "github.com/yuin/goldmark/extension/ast"
	"github.com/yuin/goldmark/text"
	"verifh/vp"
)

// independent cell splitter for a row without backslash and backtick: trim spaces, drop one leading
// and one trailing pipe, split at pipes. Returns the cells (nil for a row with no cell at all).
func splitCells(line []byte) [][]byte {
	s, e := 0, len(line)
	// whitespace around a row: space, TAB and also CR/VT/FF (a CR in front of the line's LF, or a stray one, is
	// not cell content; GFM trims "whitespace")
	for s < e && vp.InSet(line[s], " \t\r\v\f") {
		s++
	}
	for e > s && vp.InSet(line[e-1], " \t\r\v\f") {
		e--
	}
	if s < e && line[s] == '|' {
		s++
	}
	if s < e && line[e-1] == '|' {
		e--
	}
	if s >= e {
		return nil
	}
	var cells [][]byte
	st := s
	for i := s; i < e; i++ {
		if line[i] == '|' {
			cells = append(cells, line[st:i])
			st = i + 1
		}
	}
	if st == e {
		// an empty last cell directly in front of the closing pipe ("a||") is not counted: goldmark reads
		// the two pipes as one row end (cmark-gfm counts an empty cell here; the property does not say)
		return cells
	}
	return append(cells, line[st:e])
}

func hasByte(b []byte, c byte) bool {
	for i := range b {
		if b[i] == c {
			return true
		}
	}
	return false
}

// delimAlign: alignment of one delimiter cell by its colons (0 none, 1 left, 2 right, 3 center).
func delimAlign(c []byte) int {
	s, e := 0, len(c)
	for s < e && vp.InSet(c[s], " \t\r\n\v\f") {
		s++
	}
	for e > s && vp.InSet(c[e-1], " \t\r\n\v\f") {
		e--
	}
	if s >= e {
		return -1
	}
	a := 0
	if c[s] == ':' {
		a |= 1
	}
	if c[e-1] == ':' {
		a |= 2
	}
	return a
}

func alignCode(a east.Alignment) int {
	switch a {
	case east.AlignLeft:
		return 1
	case east.AlignRight:
		return 2
	case east.AlignCenter:
		return 3
	}
	return 0
}

var alignNames = []string{"", "left", "right", "center"}

// lineAt returns the physical line of src that contains offset p, and the one after it, with a
// container prefix of pl bytes removed.
func linesAt(src []byte, p, pl int) (cur, next []byte) {
	s := p
	for s > 0 && src[s-1] != '\n' {
		s--
	}
	e := p
	for e < len(src) && src[e] != '\n' {
		e++
	}
	cur = src[s:e]
	if len(cur) >= pl {
		cur = cur[pl:]
	}
	if e < len(src) {
		ns := e + 1
		ne := ns
		for ne < len(src) && src[ne] != '\n' {
			ne++
		}
		next = src[ns:ne]
		if len(next) >= pl {
			next = next[pl:]
		}
	}
	return
}

// H_c17_tables: every table is rectangular, in the tree and in the output.
func H_c17_tables() {
	cfg := vp.ParamStr("cfg", "table||")
	m := WarmMD(cfg)
	xhtml := cfgHas(cfg, 2, "xhtml")
	var src []byte
	pl := 0
	if vp.ParamInt("rows", -1) >= 0 {
		// T(table): [paragraph line] header, delimiter, body rows; every line a symbolic string
		alpha := vp.ParamStr("alpha", "|-: a\\`")
		cont := vp.ParamStr("container", "")
		first, rest := "", ""
		switch cont {
		case "quote":
			first, rest = "> ", "> "
		case "list":
			first, rest = "- ", "  "
		}
		pl = len(first)
		lens := splitN(vp.ParamStr("lens", "3,3"), ',')
		for i, ls := range lens {
			n := 0
			for _, c := range ls {
				n = n*10 + int(c-'0')
			}
			var ln []byte
			if i == 1 && vp.ParamStr("delim", "") != "" {
				ln = []byte(vp.ParamStr("delim", "")) // concrete delimiter row
			} else {
				ln = vp.Bytes("l"+string(rune('0'+i)), n)
				for _, c := range ln {
					vp.Assume(vp.InSet(c, alpha))
				}
			}
			if i == 0 {
				src = append(src, first...)
			} else {
				src = append(src, rest...)
			}
			src = append(append(src, ln...), '\n')
		}
	} else {
		src = Source()
		// corpus windows: the harness finds the header and delimiter lines of a table by position; a window byte
		// that opens a container ('>') or is a vertical whitespace (VT, FF: blank-line and trimming rules of their
		// own) moves those lines in ways this oracle does not model - kept out of the windows (stated in evidence)
		if w := vp.ParamInt("window", 0); w > 0 && vp.ParamStr("seed", "") != "" {
			p0 := vp.ParamInt("pos", 0)
			for i := p0; i < p0+w && i < len(src); i++ {
				vp.Assume(vp.Not(vp.InSet(src[i], ">\v\f")))
			}
		}
	}
	vp.Observe("src", src)
	// optional history on the same instance: concrete documents converted first (\x1f-separated)
	if hs := vp.ParamStr("hist", ""); hs != "" {
		for _, hdoc := range splitN(hs, 0x1f) {
			var tmp bytes.Buffer
			_ = m.Convert([]byte(hdoc), &tmp)
		}
	}
	doc := m.Parser().Parse(text.NewReader(src))
	type tinfo struct {
		k     int
		align []int
		cells [][]int // per row, per cell: the alignment the tree gives the cell
	}
	var tabs []tinfo
	_ = ast.Walk(doc, func(n ast.Node, entering bool) (ast.WalkStatus, error) {
		if !entering {
			return ast.WalkContinue, nil
		}
		t, ok := n.(*east.Table)
		if !ok {
			return ast.WalkContinue, nil
		}
		vp.Reach("table")
		k := len(t.Alignments)
		vp.Assert(k > 0, "table without columns")
		ti := tinfo{k: k}
		for _, a := range t.Alignments {
			ti.align = append(ti.align, alignCode(a))
		}
		headers := 0
		idx := 0
		for r := t.FirstChild(); r != nil; r = r.NextSibling() {
			switch r.(type) {
			case *east.TableHeader:
				headers++
				vp.Assert(idx == 0, "table header is not the first row")
			case *east.TableRow:
				vp.Assert(idx > 0, "table starts with a body row")
			default:
				vp.Fail("table child that is neither header nor row")
			}
			vp.Assert(r.ChildCount() == k, "row with a cell count different from the number of columns")
			col := 0
			var rowAl []int
			for c := r.FirstChild(); c != nil; c = c.NextSibling() {
				cell, ok := c.(*east.TableCell)
				vp.Assert(ok, "row child that is not a cell")
				if ok && col < k {
					// "each cell written in the source": cells added as padding have no lines
					if cell.Lines().Len() > 0 {
						vp.Assert(cell.Alignment == t.Alignments[col], "cell written in the source does not carry its column's alignment")
					} else {
						vp.Assert(cell.Alignment == t.Alignments[col] || cell.Alignment == east.AlignNone, "padding cell with a foreign alignment")
					}
					rowAl = append(rowAl, alignCode(cell.Alignment))
				}
				col++
			}
			ti.cells = append(ti.cells, rowAl)
			idx++
		}
		vp.Assert(headers == 1, "table does not have exactly one header row")
		tabs = append(tabs, ti)
		// the header must have as many cells as the delimiter row: counted independently from the source
		if h := t.FirstChild(); h != nil {
			for c := h.FirstChild(); c != nil; c = c.NextSibling() {
				if c.Lines().Len() > 0 {
					hl, dl := linesAt(src, c.Lines().At(0).Start, pl)
					if !hasByte(hl, '\\') && !hasByte(hl, '`') {
						hc, dc := splitCells(hl), splitCells(dl)
						vp.Assert(len(hc) == len(dc), "header row and delimiter row have different cell counts, yet a table was built")
						if len(dc) == k {
							for i, d := range dc {
								vp.Assert(delimAlign(d) == ti.align[i], "column alignment differs from the delimiter row's colons")
							}
						}
						vp.Reach("header-counted")
					}
					break
				}
			}
		}
		return ast.WalkSkipChildren, nil
	})
	// ---- the output ----
	var o bytes.Buffer
	e := m.Renderer().Render(&o, src, doc)
	vp.Assert(e == nil, "Render returned an error")
	out := o.Bytes()
	vp.Observe("out", out)
	tokQuiet = true
	toks, ok := tokenizeHTML(out)
	tokQuiet = false
	if !ok {
		return
	}
	ti := -1
	inHead, inBody, inRow := false, false, false
	theads, cells, rowsInHead, rowNo := 0, 0, 0, -1
	for i := range toks {
		t := &toks[i]
		if t.Kind == tOpen {
			switch t.Name {
			case "table":
				ti++
				theads, rowsInHead, rowNo = 0, 0, -1
				vp.Assert(ti < len(tabs), "more tables in the output than in the tree")
				if ti >= len(tabs) {
					return
				}
			case "thead":
				inHead = true
				theads++
			case "tbody":
				inBody = true
			case "tr":
				inRow = true
				cells = 0
				rowNo++
				if inHead {
					rowsInHead++
				}
				vp.Assert(inHead || inBody, "table row outside thead/tbody")
			case "th", "td":
				if ti < 0 || !inRow {
					vp.Fail("table cell outside a row")
					return
				}
				vp.Assert((t.Name == "th") == inHead, "th outside the header or td inside it")
				if rowNo < len(tabs[ti].cells) && cells < len(tabs[ti].cells[rowNo]) {
					want := alignNames[tabs[ti].cells[rowNo][cells]]
					al, hasAl := t.attr("align")
					st, hasSt := t.attr("style")
					if want == "" {
						vp.Assert(!hasAl && !hasSt, "cell without alignment in the tree carries one in the output")
					} else if xhtml {
						vp.Assert(hasAl && vp.EqBytes(al, []byte(want)), "cell does not carry its alignment as an align attribute")
					} else {
						vp.Assert(hasSt && vp.EqBytes(st, []byte("text-align:"+want)), "cell does not carry its column's alignment")
					}
				}
				cells++
			}
		} else if t.Kind == tClose {
			switch t.Name {
			case "thead":
				inHead = false
				vp.Assert(rowsInHead == 1, "thead does not hold exactly one row")
			case "tbody":
				inBody = false
			case "tr":
				inRow = false
				vp.Assert(cells == tabs[ti].k, "rendered row with a cell count different from the header's")
			case "table":
				vp.Assert(theads == 1, "rendered table does not have exactly one thead")
			}
		}
	}
	vp.Assert(ti+1 == len(tabs), "fewer tables in the output than in the tree")
	vp.Reach("done")
}

func init() { reg("H_c17_tables", H_c17_tables) }
