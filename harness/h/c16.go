package h

import (
	"bytes"

	"verifh/vp"
)

// footnoteDoc builds a document from placement strings. refs: one char per reference —
//   p paragraph, e emphasis, l link text, i image alt, t table cell, h heading, f inside the body of
//   definition 0, u inside the body of an extra, never referenced definition, q inside a block quote.
// defs: one char per definition — t top level, q in a block quote, l in a list item.
// Labels are symbolic strings of ln bytes (r<i> for references, d<k> for definitions).
func footnoteDoc(refs, defs string, ln int, alpha string) (doc []byte, rl, dl [][]byte) {
	for i := 0; i < len(refs); i++ {
		l := vp.Bytes("r"+string(rune('0'+i)), ln)
		alphaAssume(l, alpha)
		rl = append(rl, l)
	}
	for k := 0; k < len(defs); k++ {
		l := vp.Bytes("d"+string(rune('0'+k)), ln)
		alphaAssume(l, alpha)
		dl = append(dl, l)
	}
	ref := func(i int) []byte { return append(append([]byte("[^"), rl[i]...), ']') }
	var inDef0, inUnref []byte
	for i := 0; i < len(refs); i++ {
		r := ref(i)
		switch refs[i] {
		case 'p':
			doc = append(append(append(doc, "x"...), r...), " y\n\n"...)
		case 'e':
			doc = append(append(append(doc, "*x"...), r...), "*\n\n"...)
		case 'l':
			doc = append(append(append(doc, "[a"...), r...), "](u)\n\n"...)
		case 'i':
			doc = append(append(append(doc, "![a"...), r...), "](u)\n\n"...)
		case 't':
			doc = append(append(append(doc, "| h |\n|---|\n| c"...), r...), " |\n\n"...)
		case 'T': // a surplus cell of a body row (dropped with the cell: the reference must not be counted)
			doc = append(append(append(doc, "| h | g |\n|---|---|\n| c | d | more"...), r...), " |\n\n"...)
		case 'x': // header cell
			doc = append(append(append(doc, "| h"...), r...), " |\n|---|\n| c |\n\n"...)
		case 'm': // first cell of a short row (the row is padded)
			doc = append(append(append(doc, "| h | g |\n|---|---|\n| c"...), r...), " |\n\n"...)
		case 'S': // strikethrough
			doc = append(append(append(doc, "~~x"...), r...), "~~ y\n\n"...)
		case 'c': // code span: not a reference
			doc = append(append(append(doc, "`x"...), r...), "` y\n\n"...)
		case 'h':
			doc = append(append(append(doc, "# h"...), r...), "\n\n"...)
		case 'q':
			doc = append(append(append(doc, "> x"...), r...), "\n\n"...)
		case 'f':
			inDef0 = append(append(inDef0, ' '), r...)
		case 'u':
			inUnref = append(append(inUnref, ' '), r...)
		default:
			panic("footnoteDoc: unknown reference placement")
		}
	}
	if len(doc) == 0 {
		doc = append(doc, "x\n\n"...)
	}
	for k := 0; k < len(defs); k++ {
		d := append(append([]byte("[^"), dl[k]...), "]: BODY"...)
		d = append(d, byte('0'+k))
		if k == 0 {
			d = append(d, inDef0...)
		}
		switch defs[k] {
		case 't':
			doc = append(append(doc, d...), "\n\n"...)
		case 'q':
			doc = append(append(append(doc, "> "...), d...), "\n\n"...)
		case 'l':
			doc = append(append(append(doc, "- "...), d...), "\n\n"...)
		default:
			panic("footnoteDoc: unknown definition placement")
		}
	}
	if inUnref != nil {
		doc = append(append(append(doc, "[^zz]: UNREF"...), inUnref...), "\n"...)
	}
	return
}

func hasPrefixB(b []byte, p string) bool {
	return len(b) >= len(p) && string(b[:len(p)]) == p
}

// atoiB parses a decimal number (concrete bytes expected); -1 on anything else.
func atoiB(b []byte) int {
	if len(b) == 0 || len(b) > 6 {
		return -1
	}
	n := 0
	for _, c := range b {
		if c < '0' || c > '9' {
			return -1
		}
		n = n*10 + int(c-'0')
	}
	return n
}

// checkFootnotes asserts the cross-link clauses of C16 over tokenised output.
func checkFootnotes(out []byte, toks []hTok) {
	// ids and fragment links carry the configured prefix (WithFootnoteIDPrefix / IDPrefixFunction): strip it
	pfx := vp.ParamStr("idprefix", "")
	if pfx != "" {
		for i := range toks {
			t := &toks[i]
			if t.Kind != tOpen {
				continue
			}
			for a := range t.Attrs {
				v := t.Attrs[a].Val
				if string(t.Attrs[a].Name) == "id" && hasPrefixB(v, pfx) {
					t.Attrs[a].Val = v[len(pfx):]
				}
				if string(t.Attrs[a].Name) == "href" && hasPrefixB(v, "#"+pfx) {
					t.Attrs[a].Val = append([]byte("#"), v[1+len(pfx):]...)
				}
			}
		}
	}
	ids := map[string]bool{}
	var liNums []int
	supIDs := map[string]int{} // sup id -> footnote number
	var backrefs []string
	backOwner := map[string]int{}
	curLi := 0
	for i := range toks {
		t := &toks[i]
		if t.Kind != tOpen {
			continue
		}
		if id, ok := t.attr("id"); ok && !vp.IsSymbolic(id) {
			s := string(id)
			if hasPrefixB(id, "fn:") || hasPrefixB(id, "fnref") {
				vp.Assert(!ids[s], "two elements share a generated id")
				ids[s] = true
			}
		}
		switch t.Name {
		case "li":
			if id, ok := t.attr("id"); ok && hasPrefixB(id, "fn:") {
				n := atoiB(id[3:])
				liNums = append(liNums, n)
				curLi = n
			}
		case "sup":
			id, ok := t.attr("id")
			if !ok || !hasPrefixB(id, "fnref") {
				continue
			}
			// id = fnref[K]:j ; the next tag is <a href="#fn:j">, then the text j
			colon := -1
			for x := 5; x < len(id); x++ {
				if id[x] == ':' {
					colon = x
				}
			}
			vp.Assert(colon > 0, "malformed footnote reference id")
			if colon < 0 {
				return
			}
			j := atoiB(id[colon+1:])
			supIDs[string(id)] = j
			if i+2 < len(toks) && toks[i+1].Kind == tOpen && toks[i+1].Name == "a" {
				href, _ := toks[i+1].attr("href")
				vp.Assert(hasPrefixB(href, "#fn:") && atoiB(href[4:]) == j, "footnote reference links to a different item than its id names")
				txt := out[toks[i+2].Start:toks[i+2].End]
				vp.Assert(toks[i+2].Kind == tText && atoiB(txt) == j, "footnote reference shows a number different from the item it links to")
			} else {
				vp.Fail("footnote reference without a link")
			}
		case "a":
			if cl, ok := t.attr("role"); ok && string(cl) == "doc-backlink" { // (the class is configurable, the role is not)
				href, _ := t.attr("href")
				vp.Assert(hasPrefixB(href, "#fnref"), "back-link with a foreign target")
				if len(href) > 0 {
					backrefs = append(backrefs, string(href[1:]))
					backOwner[string(href[1:])] = curLi
				}
			}
		}
	}
	for k, n := range liNums {
		vp.Assert(n == k+1, "footnote items are not numbered consecutively from 1 in the order listed")
	}
	for id, j := range supIDs {
		vp.Assert(j >= 1 && j <= len(liNums), "footnote reference links to an item that is not rendered")
		_ = id
	}
	seenBack := map[string]bool{}
	for _, b := range backrefs {
		_, ok := supIDs[b]
		vp.Assert(ok, "back-link points to a reference that does not exist in the output")
		vp.Assert(!seenBack[b], "two back-links point to the same reference")
		seenBack[b] = true
		if ok {
			vp.Assert(supIDs[b] == backOwner[b], "back-link of one item points to a reference of another item")
		}
	}
	for id := range supIDs {
		vp.Assert(seenBack[id], "a rendered reference has no back-link")
	}
	if len(liNums) > 0 {
		vp.Reach("items")
	}
	if len(liNums) > 1 {
		vp.Reach("two-items")
	}
}

// H_c16_footnotes: numbering and cross-links of rendered footnotes are consistent.
func H_c16_footnotes() {
	cfg := vp.ParamStr("cfg", "footnote||")
	m := WarmMD(cfg)
	var src []byte
	var rl, dl [][]byte
	if rp := vp.ParamStr("refs", ""); rp != "" || vp.ParamStr("defs", "") != "" {
		src, rl, dl = footnoteDoc(rp, vp.ParamStr("defs", "t"), vp.ParamInt("ln", 1), vp.ParamStr("alpha", "ab1"))
	} else {
		src = Source()
	}
	vp.Observe("src", src)
	var o bytes.Buffer
	e := m.Convert(src, &o)
	vp.Assert(e == nil, "conversion returned an error")
	out := o.Bytes()
	vp.Observe("out", out)
	tokQuiet = true
	toks, ok := tokenizeHTML(out)
	tokQuiet = false
	if !ok {
		return
	}
	checkFootnotes(out, toks)
	// a definition whose label no reference spells produces no output
	for k := range dl {
		referenced := false
		for i := range rl {
			referenced = vp.Or(referenced, vp.EqBytes(rl[i], dl[k]))
		}
		if !referenced {
			marker := "BODY" + string(rune('0'+k))
			vp.Assert(indexOf(out, 0, marker) < 0, "a definition that is never referenced produced output")
			vp.Reach("unreferenced")
		}
	}
	vp.Reach("done")
}

func init() { reg("H_c16_footnotes", H_c16_footnotes) }
