package ast

// In-package harness for C13 (injected by overlay; never written into /repo).
// One mutator call from an arbitrary well-formed forest, checked against a list-of-children
// model through the public accessors only; Walk against a scripted walker.

import (
	"errors"

	"verifh/vp"
)

const c13Max = 6

type c13Model struct {
	k    int
	par  [c13Max]int
	kids [c13Max][]int
}

func (m *c13Model) detach(v int) {
	p := m.par[v]
	if p < 0 {
		return
	}
	ks := m.kids[p]
	out := make([]int, 0, len(ks))
	for _, c := range ks {
		if c != v {
			out = append(out, c)
		}
	}
	m.kids[p] = out
	m.par[v] = -1
}

func (m *c13Model) indexOf(s, v int) int {
	if v < 0 || v >= m.k {
		return -1
	}
	for i, c := range m.kids[s] {
		if c == v {
			return i
		}
	}
	return -1
}

func (m *c13Model) insertAt(s, pos, v int) {
	ks := m.kids[s]
	out := make([]int, 0, len(ks)+1)
	out = append(out, ks[:pos]...)
	out = append(out, v)
	out = append(out, ks[pos:]...)
	m.kids[s] = out
	m.par[v] = s
}

// isAncestorOrSelf reports whether a is v or an ancestor of v.
func (m *c13Model) isAncestorOrSelf(a, v int) bool {
	for x := v; x >= 0; x = m.par[x] {
		if x == a {
			return true
		}
	}
	return false
}

// c13Build writes the forest described by parent indices directly into the BaseNode fields.
func c13Build(k int, par []int) ([]*Paragraph, *c13Model) {
	nodes := make([]*Paragraph, k)
	for i := range nodes {
		nodes[i] = NewParagraph()
	}
	m := &c13Model{k: k}
	for i := 0; i < k; i++ {
		m.par[i] = par[i]
		if par[i] >= 0 {
			m.kids[par[i]] = append(m.kids[par[i]], i)
		}
	}
	for i := 0; i < k; i++ {
		n := nodes[i]
		if par[i] >= 0 {
			n.parent = nodes[par[i]]
		}
		ks := m.kids[i]
		n.childCount = len(ks)
		if len(ks) > 0 {
			n.firstChild = nodes[ks[0]]
			n.lastChild = nodes[ks[len(ks)-1]]
		}
		for j, c := range ks {
			if j > 0 {
				nodes[c].prev = nodes[ks[j-1]]
			}
			if j+1 < len(ks) {
				nodes[c].next = nodes[ks[j+1]]
			}
		}
	}
	return nodes, m
}

func c13Index(nodes []*Paragraph, n Node) int {
	if n == nil {
		return -1
	}
	for i, x := range nodes {
		if Node(x) == n {
			return i
		}
	}
	return -2
}

// c13Check compares the tree seen through the public accessors with the model.
func c13Check(nodes []*Paragraph, m *c13Model, tag string) {
	for i, n := range nodes {
		ks := m.kids[i]
		vp.Assert(c13Index(nodes, n.Parent()) == m.par[i], tag+": Parent disagrees with model")
		vp.Assert(n.ChildCount() == len(ks), tag+": ChildCount disagrees with model")
		vp.Assert(n.HasChildren() == (len(ks) > 0), tag+": HasChildren disagrees with model")
		// forward
		j := 0
		for c := n.FirstChild(); c != nil; c = c.NextSibling() {
			if j >= len(ks) {
				vp.Fail(tag + ": more children forward than the model")
				return
			}
			vp.Assert(c13Index(nodes, c) == ks[j], tag+": forward child sequence disagrees with model")
			j++
			if j > c13Max+1 {
				vp.Fail(tag + ": forward sibling chain does not end")
				return
			}
		}
		vp.Assert(j == len(ks), tag+": fewer children forward than the model")
		// backward
		j = len(ks) - 1
		steps := 0
		for c := n.LastChild(); c != nil; c = c.PreviousSibling() {
			if j < 0 {
				vp.Fail(tag + ": more children backward than the model")
				return
			}
			vp.Assert(c13Index(nodes, c) == ks[j], tag+": backward child sequence disagrees with model")
			j--
			steps++
			if steps > c13Max+1 {
				vp.Fail(tag + ": backward sibling chain does not end")
				return
			}
		}
		vp.Assert(j == -1, tag+": fewer children backward than the model")
		if m.par[i] < 0 {
			vp.Assert(n.NextSibling() == nil, tag+": detached node keeps a next sibling")
			vp.Assert(n.PreviousSibling() == nil, tag+": detached node keeps a previous sibling")
		}
	}
}

func c13Forest(k int) []int {
	par := make([]int, k)
	for i := 0; i < k; i++ {
		par[i] = vp.Concrete(vp.IntRange("par", -1, i-1))
	}
	return par
}

func nodeOrNil(nodes []*Paragraph, i int) Node {
	if i < 0 || i >= len(nodes) {
		return nil
	}
	return nodes[i]
}

// VerifH_c13_step: arbitrary forest, one mutator call with arbitrary operands, model agreement.
func VerifH_c13_step() {
	k := vp.ParamInt("k", 4)
	par := c13Forest(k)
	nodes, m := c13Build(k, par)
	c13Check(nodes, m, "pre-state")
	op := vp.Concrete(vp.IntRange("op", 0, 5))
	s := vp.Concrete(vp.IntRange("self", 0, k-1))
	v1, ins := 0, 0
	if op >= 1 && op <= 4 {
		v1 = vp.Concrete(vp.IntRange("v1", 0, k)) // k means nil
	}
	if op <= 3 {
		ins = vp.Concrete(vp.IntRange("ins", 0, k-1))
	}
	self := nodes[s]
	switch op {
	case 0: // AppendChild(self, ins)
		vp.Assume(!m.isAncestorOrSelf(ins, s))
		self.AppendChild(self, nodes[ins])
		m.detach(ins)
		m.insertAt(s, len(m.kids[s]), ins)
		vp.Reach("append")
	case 1: // InsertBefore(self, v1, ins); v1 nil or foreign appends
		vp.Assume(!m.isAncestorOrSelf(ins, s))
		vp.Assume(ins != v1)
		self.InsertBefore(self, nodeOrNil(nodes, v1), nodes[ins])
		m.detach(ins)
		if p := m.indexOf(s, v1); p >= 0 {
			m.insertAt(s, p, ins)
		} else {
			m.insertAt(s, len(m.kids[s]), ins)
		}
		vp.Reach("insert-before")
	case 2: // InsertAfter(self, v1, ins); foreign v1 appends
		vp.Assume(v1 < k)
		vp.Assume(!m.isAncestorOrSelf(ins, s))
		vp.Assume(ins != v1)
		self.InsertAfter(self, nodes[v1], nodes[ins])
		m.detach(ins)
		if p := m.indexOf(s, v1); p >= 0 {
			m.insertAt(s, p+1, ins)
		} else {
			m.insertAt(s, len(m.kids[s]), ins)
		}
		vp.Reach("insert-after")
	case 3: // ReplaceChild(self, v1, ins); foreign v1 appends
		vp.Assume(v1 < k)
		vp.Assume(!m.isAncestorOrSelf(ins, s))
		vp.Assume(ins != v1)
		self.ReplaceChild(self, nodes[v1], nodes[ins])
		m.detach(ins)
		if p := m.indexOf(s, v1); p >= 0 {
			m.insertAt(s, p, ins)
			m.detach(v1)
		} else {
			m.insertAt(s, len(m.kids[s]), ins)
		}
		vp.Reach("replace")
	case 4: // RemoveChild(self, v1)
		vp.Assume(v1 < k)
		self.RemoveChild(self, nodes[v1])
		if m.indexOf(s, v1) >= 0 {
			m.detach(v1)
		}
		vp.Reach("remove")
	case 5: // RemoveChildren(self)
		self.RemoveChildren(self)
		for _, c := range append([]int{}, m.kids[s]...) {
			m.detach(c)
		}
		vp.Reach("remove-children")
	}
	c13Check(nodes, m, "after call")
	vp.Reach("done")
}

// VerifH_c13_sort: SortChildren with a comparator over symbolic keys yields a sorted permutation.
func VerifH_c13_sort() {
	k := vp.ParamInt("k", 4)
	par := c13Forest(k)
	nodes, m := c13Build(k, par)
	key := make([]int, k)
	for i := range key {
		key[i] = vp.IntRange("key", 0, 2)
	}
	s := vp.Concrete(vp.IntRange("self", 0, k-1))
	self := nodes[s]
	self.SortChildren(func(a, b Node) int {
		return key[c13Index(nodes, a)] - key[c13Index(nodes, b)]
	})
	// permutation of the model's children, non-decreasing keys, links consistent both ways
	seen := make([]bool, k)
	n := 0
	prevKey := -1
	var last Node
	for c := self.FirstChild(); c != nil; c = c.NextSibling() {
		i := c13Index(nodes, c)
		if i < 0 || m.par[i] != s || seen[i] {
			vp.Fail("SortChildren: child sequence is not a permutation of the children")
			return
		}
		seen[i] = true
		vp.Assert(key[i] >= prevKey, "SortChildren: children not in comparator order")
		prevKey = key[i]
		vp.Assert(c.PreviousSibling() == last, "SortChildren: previous-sibling link inconsistent")
		vp.Assert(c.Parent() == Node(self), "SortChildren: parent link changed")
		last = c
		n++
		if n > k {
			vp.Fail("SortChildren: sibling chain does not end")
			return
		}
	}
	vp.Assert(n == len(m.kids[s]), "SortChildren: lost or gained children")
	vp.Assert(self.LastChild() == last, "SortChildren: LastChild inconsistent")
	vp.Assert(self.ChildCount() == len(m.kids[s]), "SortChildren: ChildCount changed")
	vp.Reach("done")
}

var errC13 = errors.New("walker error")

type c13Visit struct {
	node     int
	entering bool
}

// VerifH_c13_walk: Walk over an arbitrary tree with a scripted walker (status and error per visit).
func VerifH_c13_walk() {
	k := vp.ParamInt("k", 4)
	par := c13Forest(k)
	nodes, m := c13Build(k, par)
	root := vp.Concrete(vp.IntRange("root", 0, k-1))
	nscript := 2*k + 1
	st := make([]int, nscript)
	er := make([]bool, nscript)
	have := make([]bool, nscript)
	// script entries are chosen lazily, when a visit consumes them
	script := func(i int) (WalkStatus, bool) {
		if !have[i] {
			have[i] = true
			st[i] = vp.Concrete(vp.IntRange("st", 1, 3))
			er[i] = vp.Concrete(vp.IntRange("er", 0, 1)) == 1
		}
		return WalkStatus(st[i]), er[i]
	}
	// model walk
	var want []c13Visit
	pos := 0
	var wantErr error
	stopped := false
	var mw func(n int)
	mw = func(n int) {
		want = append(want, c13Visit{n, true})
		s, e := script(pos)
		pos++
		if e {
			wantErr, stopped = errC13, true
			return
		}
		if s == WalkStop {
			stopped = true
			return
		}
		if s != WalkSkipChildren {
			for _, c := range m.kids[n] {
				mw(c)
				if stopped {
					return
				}
			}
		}
		want = append(want, c13Visit{n, false})
		s, e = script(pos)
		pos++
		if e {
			wantErr, stopped = errC13, true
			return
		}
		if s == WalkStop {
			stopped = true
		}
	}
	mw(root)
	// real walk
	var got []c13Visit
	gp := 0
	err := Walk(nodes[root], func(n Node, entering bool) (WalkStatus, error) {
		got = append(got, c13Visit{c13Index(nodes, n), entering})
		if gp >= nscript {
			vp.Fail("Walk: more visits than any tree of this size allows")
			return WalkStop, nil
		}
		s, e := script(gp)
		gp++
		if e {
			return s, errC13
		}
		return s, nil
	})
	vp.Assert(err == wantErr, "Walk: returned error differs from the model")
	vp.Assert(len(got) == len(want), "Walk: number of visits differs from the model")
	for i := 0; i < len(got) && i < len(want); i++ {
		vp.Assert(got[i] == want[i], "Walk: visit sequence differs from the model")
	}
	vp.Reach("done")
}

// VerifH_c13_history: k operations from detached nodes (cross-check of the one-step harness).
func VerifH_c13_history() {
	k := vp.ParamInt("k", 3)
	steps := vp.ParamInt("steps", 3)
	par := make([]int, k)
	for i := range par {
		par[i] = -1
	}
	nodes, m := c13Build(k, par)
	for step := 0; step < steps; step++ {
		op := vp.Concrete(vp.IntRange("op", 0, 4))
		s := vp.Concrete(vp.IntRange("self", 0, k-1))
		v1, ins := 0, 0
		if op >= 1 {
			v1 = vp.Concrete(vp.IntRange("v1", 0, k))
		}
		if op <= 3 {
			ins = vp.Concrete(vp.IntRange("ins", 0, k-1))
		}
		self := nodes[s]
		switch op {
		case 0:
			vp.Assume(!m.isAncestorOrSelf(ins, s))
			self.AppendChild(self, nodes[ins])
			m.detach(ins)
			m.insertAt(s, len(m.kids[s]), ins)
		case 1:
			vp.Assume(!m.isAncestorOrSelf(ins, s))
			vp.Assume(ins != v1)
			self.InsertBefore(self, nodeOrNil(nodes, v1), nodes[ins])
			m.detach(ins)
			if p := m.indexOf(s, v1); p >= 0 {
				m.insertAt(s, p, ins)
			} else {
				m.insertAt(s, len(m.kids[s]), ins)
			}
		case 2:
			vp.Assume(v1 < k)
			vp.Assume(!m.isAncestorOrSelf(ins, s))
			vp.Assume(ins != v1)
			self.InsertAfter(self, nodes[v1], nodes[ins])
			m.detach(ins)
			if p := m.indexOf(s, v1); p >= 0 {
				m.insertAt(s, p+1, ins)
			} else {
				m.insertAt(s, len(m.kids[s]), ins)
			}
		case 3:
			vp.Assume(v1 < k)
			vp.Assume(!m.isAncestorOrSelf(ins, s))
			vp.Assume(ins != v1)
			self.ReplaceChild(self, nodes[v1], nodes[ins])
			m.detach(ins)
			if p := m.indexOf(s, v1); p >= 0 {
				m.insertAt(s, p, ins)
				m.detach(v1)
			} else {
				m.insertAt(s, len(m.kids[s]), ins)
			}
		case 4:
			vp.Assume(v1 < k)
			self.RemoveChild(self, nodes[v1])
			if m.indexOf(s, v1) >= 0 {
				m.detach(v1)
			}
		}
		c13Check(nodes, m, "history")
	}
	vp.Reach("done")
}
