// Command gosym: bounded symbolic execution of Go SSA for the goldmark property checks.
package main

import (
	"bufio"
	"encoding/json"
	"flag"
	"fmt"
	"os"
	"runtime/debug"
	"runtime/pprof"
	"sort"
	"strings"
	"time"

	"gosym/driver"
	"gosym/interp"
)

func main() {
	debug.SetMemoryLimit(6 << 30)
	if len(os.Args) < 2 {
		fmt.Fprintln(os.Stderr, "usage: gosym worker | run | check <ID> [--tier quick|thorough] | replay <file>")
		os.Exit(2)
	}
	switch os.Args[1] {
	case "worker":
		worker()
	case "run":
		run(os.Args[2:])
	case "check":
		os.Exit(driver.CheckMain(os.Args[2:]))
	case "replay":
		os.Exit(driver.ReplayMain(os.Args[2:]))
	default:
		fmt.Fprintln(os.Stderr, "unknown subcommand", os.Args[1])
		os.Exit(2)
	}
}

func load() *interp.Program {
	interp.SMTLogPath = os.Getenv("GOSYM_SMTLOG")
	t0 := time.Now()
	p, err := driver.LoadProgram()
	if err != nil {
		fmt.Fprintln(os.Stderr, "LOAD-ERROR:", err)
		os.Exit(3)
	}
	if err := p.InitPackages(); err != nil {
		fmt.Fprintln(os.Stderr, "INIT-ERROR:", err)
		os.Exit(3)
	}
	if os.Getenv("GOSYM_VERBOSE") != "" {
		fmt.Fprintln(os.Stderr, "loaded+init in", time.Since(t0))
	}
	return p
}

func worker() {
	p := load()
	defer p.Close()
	in := bufio.NewReaderSize(os.Stdin, 1<<20)
	out := bufio.NewWriter(os.Stdout)
	fmt.Fprintln(out, `{"ready":true}`)
	out.Flush()
	for {
		line, err := in.ReadBytes('\n')
		if len(line) > 1 {
			var job interp.Job
			if e := json.Unmarshal(line, &job); e != nil {
				fmt.Fprintln(os.Stderr, "bad job:", e)
				os.Exit(3)
			}
			res := p.Run(&job)
			b, _ := json.Marshal(res)
			out.Write(b)
			out.WriteByte('\n')
			out.Flush()
		}
		if err != nil {
			return
		}
	}
}

type kv map[string]string

func (k kv) String() string { return fmt.Sprint(map[string]string(k)) }
func (k kv) Set(s string) error {
	i := strings.Index(s, "=")
	if i < 0 {
		return fmt.Errorf("want k=v")
	}
	k[s[:i]] = s[i+1:]
	return nil
}

func run(args []string) {
	fs := flag.NewFlagSet("run", flag.ExitOnError)
	entry := fs.String("entry", "", "entry function (pkgpath.Func)")
	maxp := fs.Int("max", 0, "max paths")
	params := kv{}
	fs.Var(params, "p", "harness parameter k=v (repeatable)")
	fs.Parse(args)
	if !strings.Contains(*entry, "/") {
		*entry = "verifh/h." + *entry
	}
	p := load()
	defer p.Close()
	if pf := os.Getenv("GOSYM_CPUPROF"); pf != "" {
		f, _ := os.Create(pf)
		pprof.StartCPUProfile(f)
		defer pprof.StopCPUProfile()
	}
	qs := interp.EnableQueryStats()
	defer func() { fmt.Println("query kinds:", qs) }()
	t0 := time.Now()
	res := p.Run(&interp.Job{Entry: *entry, Params: params, MaxPaths: *maxp, SampleEvery: 1, MaxSamples: 3})
	st := res.Stats
	fmt.Printf("paths=%d infeasible=%d decisions=%d forced=%d sat=%d unsat=%d unknown=%d cached=%d asserts=%d instrs=%d solver=%.2fs wall=%.2fs leftover=%d\n",
		st.Paths, st.Infeasible, st.Decisions, st.Forced, st.Sat, st.Unsat, st.Unknown, st.Cached, st.Asserts, st.Instrs, float64(st.SolverNs)/1e9, time.Since(t0).Seconds(), len(res.Leftover))
	fmt.Println("reach:", st.Reach)
	if os.Getenv("GOSYM_SITES") != "" {
		type kvp struct {
			k string
			v int
		}
		var xs []kvp
		for k, v := range st.Sites {
			xs = append(xs, kvp{k, v})
		}
		sort.Slice(xs, func(i, j int) bool { return xs[i].v > xs[j].v })
		for i, x := range xs {
			if i > 25 {
				break
			}
			fmt.Printf("  site %-50s %d\n", x.k, x.v)
		}
	}
	for _, e := range res.EngineErrs {
		fmt.Println("ENGINE-ERR:", e)
	}
	for _, e := range res.Incomplete {
		fmt.Println("INCOMPLETE:", e)
	}
	for i, v := range res.Violations {
		if i >= 10 {
			fmt.Printf("... %d more\n", len(res.Violations)-10)
			break
		}
		fmt.Printf("VIOL %s: %s\n  model=%v\n  obs=%v\n  stack=%s\n", v.Kind, v.Msg, v.Model, v.Obs, strings.Join(v.Stack, "\n        "))
	}
	for _, s := range res.Samples {
		fmt.Printf("sample %s model=%v obs=%v\n", s.Outcome, s.Model, s.Obs)
	}
}
