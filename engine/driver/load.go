package driver

import (
	"fmt"
	"os"
	"path/filepath"
	"strings"

	"gosym/interp"
)

var (
	VerifDir   = envOr("VERIF_DIR", "/verif")
	RepoDir    = envOr("REPO_DIR", "/repo")
	HarnessDir = envOr("HARNESS_DIR", filepath.Join(VerifDir, "harness"))
)

func envOr(k, d string) string {
	if v := os.Getenv(k); v != "" {
		return v
	}
	return d
}

// OverlayFiles maps virtual paths inside /repo to the harness files injected there.
func OverlayFiles() (map[string]string, error) {
	out := map[string]string{}
	root := filepath.Join(HarnessDir, "overlay")
	err := filepath.Walk(root, func(p string, info os.FileInfo, err error) error {
		if err != nil {
			return err
		}
		if info.IsDir() || !strings.HasSuffix(p, ".go") {
			return nil
		}
		rel, _ := filepath.Rel(root, p)
		out[filepath.Join(RepoDir, rel)] = p
		return nil
	})
	return out, err
}

var GoEnv = []string{"GOMAXPROCS=2", "GOFLAGS=-mod=mod", "GOPROXY=off", "GOSUMDB=off", "GOTOOLCHAIN=local", "CGO_ENABLED=0"}

// LoadProgram loads /repo's current working tree with the harness packages and overlays.
func LoadProgram() (*interp.Program, error) {
	ov, err := OverlayFiles()
	if err != nil {
		return nil, err
	}
	overlay := map[string][]byte{}
	for virt, real := range ov {
		b, err := os.ReadFile(real)
		if err != nil {
			return nil, err
		}
		overlay[virt] = b
	}
	p, err := interp.Load(HarnessDir, []string{"./h"}, overlay, GoEnv)
	if err != nil {
		return nil, fmt.Errorf("loading %s: %w", HarnessDir, err)
	}
	return p, nil
}
