package driver

import (
	"fmt"
	"strings"
	"math/rand"
	"strconv"

	"gosym/interp"
)

// Plans maps a property id to its plan builder.
var Plans = map[string]func(tier string, seed int64) (*Plan, error){}

func job(entry string, kv ...interface{}) interp.Job {
	p := map[string]string{}
	for i := 0; i+1 < len(kv); i += 2 {
		p[fmt.Sprint(kv[i])] = fmt.Sprint(kv[i+1])
	}
	return interp.Job{Entry: "verifh/h." + entry, Params: p}
}

func pjob(pkg, entry string, kv ...interface{}) interp.Job {
	j := job(entry, kv...)
	j.Entry = pkg + "." + entry
	return j
}

// Configuration lattice (DESIGN 1.8 Cfg).
var extSets = []string{"core", "gfm", "deflist", "footnote", "typographer", "cjk", "cjkcss3", "cjkesc", "gfm,deflist,footnote,typographer,cjk"}
var allExt = "gfm,deflist,footnote,typographer,cjk"

func cfg(ext, popts, ropts string) string { return ext + "|" + popts + "|" + ropts }

// corpusSlice picks a deterministic pseudo-random subset of (doc, position) pairs.
func corpusSlice(docs []Doc, seed int64, maxDocLen, count int) []struct {
	D   Doc
	Pos int
} {
	var all []struct {
		D   Doc
		Pos int
	}
	for _, d := range docs {
		if len(d.Markdown) > maxDocLen || len(d.Markdown) == 0 {
			continue
		}
		for p := 0; p <= len(d.Markdown); p++ {
			all = append(all, struct {
				D   Doc
				Pos int
			}{d, p})
		}
	}
	r := rand.New(rand.NewSource(seed))
	r.Shuffle(len(all), func(i, j int) { all[i], all[j] = all[j], all[i] })
	if count > 0 && len(all) > count {
		all = all[:count]
	}
	return all
}

func itoaI(n int) string { return strconv.Itoa(n) }

func init() {
	Plans["C01"] = planC01
	Plans["C19"] = planC19
	Plans["C13"] = planC13
	Plans["C18"] = planC18
	Plans["C05"] = planC05
	Plans["C12"] = planC12
	Plans["C06"] = planC06
	Plans["C14"] = planC14
	Plans["C07"] = planC07
}

// Alphabets for S(L,Σ) (DESIGN 1.8) and token sets for token-mode sources.
var alphabets = map[string]string{
	"blocks": ">\t# a\n-",
	"inline": "*_[]()`\\a\n !",
	"fences": "`~>\n a-",
	"entity": "&#x;1a<>\n",
	"lists":  "-1.) \na\t",
}

const tokSep = "\x1f"

var tokenSets = map[string][]string{
	"containers": {"> ", "```", "\n", "a", "- ", "    "},
	"contain5":   {"> ", "```", "\n", "a", "- "},
	"inlines":    {"*", "_", "[", "](", ")", "`", "a", " ", "\n", "!", "<", ">"},
	"inlines9":   {"*", "[", "](", ")", "`", "a", " ", "\n", "!"},
	"blocks2":    {"# ", "---", "\n", "a", "1. ", "\t", "<div>", "[a]: b", "|", "~~~"},
	"nestlinks":  {"[", "![", "*", "[b](c)", "](x)"},
	"tabquote":   {">\t", " ", "```", "\n", "a"},
	"tablist":    {"-\t", " ", "~~~", "\n", "a", "\t"},
}

// templates: seed documents with a window of symbolic bytes (T(F) of DESIGN 1.8).
type tmpl struct {
	Seed string
	Pos  int
	W    int
}

var coreTemplates = []tmpl{
	{"[a](XX)", 4, 2}, {"[a](<XX>)", 5, 2}, {"![a](XX)", 5, 2}, {"[a]: XX\n\n[a]", 5, 2}, {"<XX>", 1, 2},
	{"[a](b \"XX\")", 8, 2}, {"[XX]\n\n[a]: b", 1, 2}, {"`XX`", 1, 2}, {"*XX*", 1, 2}, {"&XX;", 1, 2}, {"&#XX;", 2, 2},
	{"```XX\na\n```", 3, 2}, {"# a {XX}", 5, 2}, {"# a {#XX}", 6, 2}, {"# a {k=XX}", 7, 2}, {"# a {id=XX}", 8, 2}, {"a {id=XX}\n===", 6, 2}, {"# a {class=XX}", 11, 2}, {"a\nXX\n", 2, 2}, {"- a\nXXb", 4, 2},
	{"> a\nXXb", 4, 2}, {"[a](&#XX;)", 6, 2}, {"[a](/x&amp;XXp;y)", 11, 2}, {"[a](\\\\XX)", 6, 2}, {"[a](b '&XX;')", 8, 2}, {"<!--XX-->", 4, 2}, {"<a href=\"XX\">", 9, 2}, {"1. a\n\n   XXb", 9, 2}, {"\\XX", 1, 2},
}

func tmplJobs(entry string, ts []tmpl, cfgs []string, extra ...interface{}) []interp.Job {
	var out []interp.Job
	for _, c := range cfgs {
		for _, t := range ts {
			kv := append([]interface{}{"cfg", c, "seed", t.Seed, "pos", t.Pos, "window", t.W}, extra...)
			out = append(out, job(entry, kv...))
		}
	}
	return out
}

func alphaJobs(entry string, names []string, n int, cfgs []string, extra ...interface{}) []interp.Job {
	var out []interp.Job
	for _, c := range cfgs {
		for _, a := range names {
			kv := append([]interface{}{"cfg", c, "n", n, "alpha", alphabets[a]}, extra...)
			out = append(out, job(entry, kv...))
		}
	}
	return out
}

func tokenJobs(entry string, names []string, n int, cfgs []string, extra ...interface{}) []interp.Job {
	var out []interp.Job
	for _, c := range cfgs {
		for _, a := range names {
			kv := append([]interface{}{"cfg", c, "n", n, "tokens", joinTok(tokenSets[a])}, extra...)
			out = append(out, job(entry, kv...))
		}
	}
	return out
}

func joinTok(ts []string) string {
	s := ""
	for i, t := range ts {
		if i > 0 {
			s += tokSep
		}
		s += t
	}
	return s
}

// windowJobs: W(C,w) — corpus documents with a window of w symbolic bytes at seeded positions.
func windowJobs(entry string, docs []Doc, seed int64, count, w int, cfgs []string, extra ...interface{}) []interp.Job {
	var out []interp.Job
	sl := corpusSlice(docs, seed, 160, count)
	for i, x := range sl {
		c := cfgs[i%len(cfgs)]
		kv := append([]interface{}{"cfg", c, "seed", x.D.Markdown, "pos", x.Pos, "window", w}, extra...)
		out = append(out, job(entry, kv...))
	}
	return out
}

func planC01(tier string, seed int64) (*Plan, error) {
	p := &Plan{MustReach: []string{"done"}}
	thorough := tier == "thorough"
	popts := []string{"", "autoid,attr"}
	ropts := []string{"", "unsafe,xhtml,hardwraps"}
	var cfgs []string
	for _, e := range extSets {
		for _, po := range popts {
			for _, ro := range ropts {
				cfgs = append(cfgs, cfg(e, po, ro))
			}
		}
	}
	for _, c := range cfgs {
		for n := 0; n <= 2; n++ {
			p.Jobs = append(p.Jobs, job("H_c01_convert", "cfg", c, "n", n))
		}
	}
	// extensions configured with their options (footnote id prefix/function, titles, classes, back-link HTML; linkify
	// protocols; table alignment rendering none/attribute/style) - "every combination of ... options"
	optCfgs := []string{cfg("gfm,footnoteopts,linkifyopts,tablenone", "attr", ""), cfg("footnotefn,tableattr,typonodash", "autoid", "xhtml"), cfg("footnoteopts,tablestyle,linkifyopts,cjkesc", "autoid,attr", "unsafe,hardwraps")}
	for _, c := range optCfgs {
		for n := 0; n <= 2; n++ {
			p.Jobs = append(p.Jobs, job("H_c01_convert", "cfg", c, "n", n))
		}
		cfgs = append(cfgs, c)
	}
	core, cjk, all := cfg("core", "", ""), cfg("cjk", "", ""), cfg(allExt, "autoid,attr", "")
	s3 := []string{core, cjk}
	if thorough {
		s3 = cfgs
	}
	for _, c := range s3 {
		p.Jobs = append(p.Jobs, job("H_c01_convert", "cfg", c, "n", 3))
	}
	la, nwin := 4, 120
	if thorough {
		la, nwin = 6, 3000
	}
	anames := []string{"blocks", "inline", "fences", "entity", "lists"}
	p.Jobs = append(p.Jobs, alphaJobs("H_c01_convert", anames, la, []string{core, all})...)
	if thorough {
		p.Jobs = append(p.Jobs, alphaJobs("H_c01_convert", []string{"blocks", "fences"}, 7, []string{core})...)
		p.Jobs = append(p.Jobs, tokenJobs("H_c01_convert", []string{"containers"}, 7, []string{core, all})...)
		p.Jobs = append(p.Jobs, tokenJobs("H_c01_convert", []string{"inlines", "blocks2"}, 5, []string{core, all})...)
		p.Jobs = append(p.Jobs, tokenJobs("H_c01_convert", []string{"tabquote", "tablist"}, 7, []string{core, all})...)
		p.Jobs = append(p.Jobs, tmplJobs("H_c01_convert", coreTemplates, []string{all, cfg("core", "autoid,attr", "unsafe"), cfg("gfm,cjk", "attr", "xhtml")})...)
	} else {
		p.Jobs = append(p.Jobs, tokenJobs("H_c01_convert", []string{"contain5"}, 6, []string{core})...)
		p.Jobs = append(p.Jobs, tokenJobs("H_c01_convert", []string{"contain5"}, 5, []string{all})...)
		p.Jobs = append(p.Jobs, tokenJobs("H_c01_convert", []string{"inlines9", "blocks2"}, 4, []string{core})...)
		p.Jobs = append(p.Jobs, tokenJobs("H_c01_convert", []string{"tabquote"}, 6, []string{core})...)
		p.Jobs = append(p.Jobs, tokenJobs("H_c01_convert", []string{"tablist"}, 5, []string{core})...)
		p.Jobs = append(p.Jobs, tmplJobs("H_c01_convert", coreTemplates, []string{all})...)
	}
	docs, err := LoadCorpus()
	if err != nil {
		return nil, err
	}
	p.Jobs = append(p.Jobs, windowJobs("H_c01_convert", docs, seed, nwin, 1, []string{all, core, cfg("gfm,cjkcss3", "attr", "xhtml")})...)
	deepExtFamilies = true
	ej, eb := extFamilyJobs("H_c01_convert", thorough, false, "autoid,attr", "", nil)
	deepExtFamilies = false
	var ej2 []interp.Job
	if thorough {
		ej2, _ = extFamilyJobs("H_c01_convert", false, false, "", "unsafe,xhtml,hardwraps", nil)
	}
	aj, ab := attrFamilyJobs("H_c01_convert", thorough, false, []string{"core", allExt}, "")
	lj, lb := longDocJobs("H_c01_convert", thorough, false, []string{all, core, cfg("gfm", "autoid", "unsafe")})
	p.Jobs = append(append(append(append(p.Jobs, ej...), ej2...), aj...), lj...)
	dj, db := deepNestJobs("H_c01_convert", thorough, []string{all, core, cfg("gfm,footnote", "", "unsafe,xhtml")})
	p.Jobs = append(p.Jobs, dj...)
	sj, sb := extSeedJobs("H_c01_convert", thorough, false, []string{all, cfg("gfm,footnote,deflist,typographer", "attr", "unsafe,xhtml,hardwraps")})
	p.Jobs = append(p.Jobs, sj...)
	if thorough {
		p.Jobs = append(p.Jobs, job("H_c01_convert", "cfg", core, "n", 4))
		p.Jobs = append(p.Jobs, windowJobs("H_c01_convert", docs, seed+1, 150, 2, []string{all})...)
	}
	p.Bounds = map[string]interface{}{
		"S(2)":          fmt.Sprintf("every byte string of length 0..2 (256 values per byte) x %d configurations (the last three configure Footnote/Linkify/Table/Typographer with their options): ", len(cfgs)) + fmt.Sprint(cfgs),
		"S(3)":          "every byte string of length 3 x " + fmt.Sprint(s3),
		"S(L,alphabet)": fmt.Sprintf("every string of length %d over each alphabet %v x {core, all extensions+autoid+attr}", la, alphabets),
		"tokens":        fmt.Sprintf("quick: every sequence of 6 (core) / 5 (all) tokens from 'contain5', 4 tokens from 'inlines9'/'blocks2', 6 from 'tabquote', 5 from 'tablist' (thorough 7); thorough: 7 from 'containers', 5 from 'inlines'/'blocks2' x {core, all}: %v", tokenSets),
		"templates":     fmt.Sprintf("%d seed templates with a 2-byte fully symbolic window (link/image destinations, titles, labels, attributes, info strings, entities, raw HTML)", len(coreTemplates)),
		"W(C,1)":        fmt.Sprintf("%d seeded (corpus document, offset) pairs with one fully symbolic byte, VERIF_SEED=%d; thorough adds W(C,2) on 150 pairs and S(4) core", nwin, seed),
		"extensions":    eb + "; thorough: a second pass at the quick lengths with unsafe+xhtml+hardwraps",
		"attributes":    ab,
		"long":          lb,
		"deep":          db,
		"ext seeds":     sb,
		"budget":        "20M SSA instructions per path stands for 'terminates'; a budget hit is replayed natively under a 20 s watchdog",
		"outside":       "longer free-form inputs, wider windows, user extensions, failing writers (C14)",
	}
	p.Rule = "one job per (configuration, input family instance); every path of every job explored"
	return p, nil
}

func planC19(tier string, seed int64) (*Plan, error) {
	p := &Plan{MustReach: []string{"done", "valid-utf8", "folding-pair"}}
	thorough := tier == "thorough"
	nEsc, nURL, nRes, nLink, kHex, kDec, kEnt := 4, 3, 3, 2, 3, 4, 2
	if thorough {
		nEsc, nURL, nRes, nLink, kHex, kDec, kEnt = 6, 4, 4, 3, 5, 7, 3
	}
	for n := 0; n <= nEsc; n++ {
		p.Jobs = append(p.Jobs, job("H_c19_escape_html", "n", n))
	}
	for n := 0; n <= nURL; n++ {
		p.Jobs = append(p.Jobs, job("H_c19_urlescape", "n", n))
	}
	// longer inputs over an alphabet that stresses the %XX and multi-byte paths
	for n := nURL + 1; n <= nURL+2; n++ {
		p.Jobs = append(p.Jobs, job("H_c19_urlescape", "n", n, "alpha", "%4g \xc3\xa9<"))
	}
	for pre := 0; pre <= 1; pre++ {
		for post := 0; post <= 2; post++ {
			p.Jobs = append(p.Jobs, job("H_c19_urlescape_triple", "pre", pre, "post", post))
		}
	}
	for n := 0; n <= nRes; n++ {
		p.Jobs = append(p.Jobs, job("H_c19_resolvers_utf8", "n", n))
	}
	p.Jobs = append(p.Jobs, job("H_c19_resolvers_utf8", "n", nRes+2, "alpha", "&#x1;\\a\xc3\xa9"))
	for k := 1; k <= kHex; k++ {
		p.Jobs = append(p.Jobs, job("H_c19_numref_hex", "k", k))
	}
	// long hexadecimal references: 8..17 digits, concrete prefix, two symbolic trailing digits
	for _, pre := range []string{"100000", "1000000", "10000000", "0000000", "ABCDEF00002", "10000000000000", "100000000000000"} {
		p.Jobs = append(p.Jobs, job("H_c19_numref_hex", "k", 2, "prefix", pre))
	}
	for k := 1; k <= kDec; k++ {
		p.Jobs = append(p.Jobs, job("H_c19_numref_dec", "k", k))
		p.Jobs = append(p.Jobs, job("H_c19_numref_dec", "k", k, "leadzero", 1))
	}
	for k := 1; k <= kEnt; k++ {
		p.Jobs = append(p.Jobs, job("H_c19_entity_name", "k", k))
	}
	for n := 0; n <= nLink; n++ {
		p.Jobs = append(p.Jobs, job("H_c19_linkref", "n", n))
	}
	p.Jobs = append(p.Jobs, job("H_c19_linkref", "n", nLink+2, "alpha", "aA \t\xc3\x9f"))
	p.Jobs = append(p.Jobs, job("H_c19_bytesfilter", "keys", 6, "base", 3))
	p.Jobs = append(p.Jobs, job("H_c19_bytesfilter", "keys", 5, "base", 2, "klen", 2, "alpha", "a!"))
	// case folding orbits: every rune of the BMP and of U+10000..U+1FFFF, one job per block of 256 code points
	for base := 0; base < 0x20000; base += 256 {
		if base >= 0xD800 && base < 0xE000 {
			continue
		}
		p.Jobs = append(p.Jobs, job("H_c19_casefold", "base", base))
	}
	// operation histories over a growing pool of filters (Add / Extend with 0-2 keys / ExtendString)
	p.Jobs = append(p.Jobs, job("H_c19_filter_hist", "k", 2))
	p.Jobs = append(p.Jobs, job("H_c19_filter_hist", "k", 2, "klen", 2, "alpha", "a!"))
	p.Jobs = append(p.Jobs, job("H_c19_filter_hist", "k", 2, "fromstring", 1, "alpha", "a!b"))
	if thorough {
		p.Jobs = append(p.Jobs, job("H_c19_filter_hist", "k", 2, "klen", 4, "alpha", "ab"))
		p.Jobs = append(p.Jobs, job("H_c19_filter_hist", "k", 3, "alpha", "a!"))
	}
	p.Bounds = map[string]interface{}{
		"EscapeHTML":       fmt.Sprintf("all byte strings of length 0..%d (256 values per byte)", nEsc),
		"URLEscape(false)": fmt.Sprintf("all byte strings of length 0..%d; length %d..%d over {%%,4,g,space,C3,A9,<}; %%XX triples with symbolic hex digits and 0..1 / 0..2 symbolic lower-case neighbours", nURL, nURL+1, nURL+2),
		"resolvers":        fmt.Sprintf("all byte strings of length 0..%d; length %d over {&,#,x,1,;,\\,a,C3,A9}; &#x h{1..%d} ; (plus 8..17-digit references with a concrete prefix and two symbolic digits) and &# d{1..%d} ; with symbolic digits; & name{1..%d} ; with symbolic letters", nRes, nRes+2, kHex, kDec, kEnt),
		"ToLinkReference":  fmt.Sprintf("all byte strings of length 0..%d plus length %d over {a,A,space,tab,C3,9F}; symbolic per-letter case flips and whitespace-run rewriting", nLink, nLink+2),
		"case folding":     "every code point U+0000..U+1FFFF except surrogates (symbolic rune, one job per block of 256): a label holding the rune and the label holding the next member of its simple case folding orbit (Go's unicode.SimpleFold, interpreted) between symbolic ASCII letters normalise to the same string",
		"BytesFilter":      "histories NewBytesFilter; Add×base; Extend; Extend; Add with 5-6 symbolic keys over a 5-byte alphabet in which four bytes share a hash bucket (1-byte keys), and 2-byte keys over {a,!}; operation histories of 2 (thorough 3) steps over a growing pool of filters, each step a solver-enumerated choice among Add(key) on any filter and deriving a new filter from any filter by Extend() / Extend(k) / Extend(k1,k2) / ExtendString(\"\") / ExtendString(\"k1,k2\"), every filter compared with its set model on every key after every step (1-byte keys over {a,!,A1,b}, 2-byte keys over {a,!}, a pool started with NewBytesFilterString; thorough: 4-byte keys over {a,b})",
		"outside":          "longer inputs; histories longer than 6 operations",
	}
	p.Rule = "one job per (function, length/template); all paths of each job explored"
	return p, nil
}

const astPkg = "github.com/yuin/goldmark/ast"

func planC13(tier string, seed int64) (*Plan, error) {
	p := &Plan{MustReach: []string{"done", "append", "insert-before", "insert-after", "replace", "remove", "remove-children"}}
	kStep, kWalk, kHist, steps := 4, 3, 3, 2
	if tier == "thorough" {
		kStep, kWalk, kHist, steps = 5, 4, 3, 3
	}
	for k := 1; k <= kStep; k++ {
		p.Jobs = append(p.Jobs, pjob(astPkg, "VerifH_c13_step", "k", k))
	}
	for k := 1; k <= kStep; k++ {
		p.Jobs = append(p.Jobs, pjob(astPkg, "VerifH_c13_sort", "k", k))
	}
	for k := 1; k <= kWalk; k++ {
		p.Jobs = append(p.Jobs, pjob(astPkg, "VerifH_c13_walk", "k", k))
	}
	p.Jobs = append(p.Jobs, pjob(astPkg, "VerifH_c13_history", "k", kHist, "steps", steps))
	p.Bounds = map[string]interface{}{
		"one-step": fmt.Sprintf("every ordered forest over K<=%d nodes (pre-state written directly into BaseNode fields) x every mutator among AppendChild/InsertBefore/InsertAfter/ReplaceChild/RemoveChild/RemoveChildren x every operand choice (self, v1 in pool or nil, insertee), under the documented preconditions (not into own subtree, not relative to itself)", kStep),
		"sort":     fmt.Sprintf("SortChildren on every forest over K<=%d nodes with symbolic keys in 0..2 per node", kStep),
		"walk":     fmt.Sprintf("Walk from every node of every forest over K<=%d nodes with every walker script (status in Stop/SkipChildren/Continue x error or not, per visit)", kWalk),
		"history":  fmt.Sprintf("all operation sequences of length %d over %d initially detached nodes", steps, kHist),
		"outside":  "larger pools; node types other than Paragraph (BaseNode is shared by all); SortChildren comparators that are not a total preorder",
	}
	p.Assumptions = []string{"pre-states are well-formed forests (representation invariant: parent/sibling/first/last/childCount agree); one step from an arbitrary well-formed state covers histories of any length over the pool"}
	p.Rule = "shape, operation and operands are solver-enumerated choices (IntRange + concretisation); each path is one (forest, call) pair"
	return p, nil
}

func planC18(tier string, seed int64) (*Plan, error) {
	p := &Plan{MustReach: []string{"done", "advance", "advance-line", "set-position", "set-padding", "skip-spaces", "read-rune", "find-closure", "advance-pad", "skip-blank"}}
	small := "a \t\n[]\\"
	if tier == "thorough" {
		p.Jobs = append(p.Jobs, job("H_c18_reader", "n", 3, "k", 3))
		p.Jobs = append(p.Jobs, job("H_c18_reader", "n", 5, "k", 2, "alpha", small))
		p.Jobs = append(p.Jobs, job("H_c18_block", "n", 3, "k", 2))
		p.Jobs = append(p.Jobs, job("H_c18_block", "n", 5, "k", 2, "alpha", "a \t\n"))
		p.Jobs = append(p.Jobs, job("H_c18_segment", "n", 5))
	} else {
		for n := 0; n <= 3; n++ {
			p.Jobs = append(p.Jobs, job("H_c18_reader", "n", n, "k", 2))
		}
		p.Jobs = append(p.Jobs, job("H_c18_reader", "n", 2, "k", 3, "alpha", "a\t\n[\xa9"))
		p.Jobs = append(p.Jobs, job("H_c18_reader", "n", 4, "k", 2, "alpha", "a\t\n"))
		for n := 1; n <= 2; n++ {
			p.Jobs = append(p.Jobs, job("H_c18_block", "n", n, "k", 2))
		}
		p.Jobs = append(p.Jobs, job("H_c18_block", "n", 3, "k", 1))
		p.Jobs = append(p.Jobs, job("H_c18_block", "n", 3, "k", 2, "alpha", "a\t\n"))
		p.Jobs = append(p.Jobs, job("H_c18_segment", "n", 3))
		p.Jobs = append(p.Jobs, job("H_c18_segment", "n", 4, "alpha", "a \t"))
	}
	// block reader over line segments that stop before their newline (gaps between segments)
	p.Jobs = append(p.Jobs, job("H_c18_block", "n", 3, "k", 1, "cut", 1, "alpha", "a \n"))
	p.Jobs = append(p.Jobs, job("H_c18_block", "n", 4, "k", 1, "cut", 1, "alpha", "a\n"))
	if tier == "thorough" {
		p.Jobs = append(p.Jobs, job("H_c18_block", "n", 3, "k", 1, "cut", 1))
		p.Jobs = append(p.Jobs, job("H_c18_block", "n", 2, "k", 2, "cut", 1))
	}
	p.Bounds = map[string]interface{}{
		"trimmed":   "block reader over segments that stop one byte before their newline (a gap in front of the next segment): n=3 over {a, space, LF} and n=4 over {a, LF}, every single call (thorough: n=3 all bytes; n=2, two calls)",
		"sources":   "every source of the stated length over {a, space, TAB, LF, CR, C3, A9, [, ], `, \\} (smaller alphabets for the longer lengths, listed per job in evidence samples)",
		"histories": "every sequence of k calls among Advance(n<=remaining), AdvanceLine, Position/SetPosition(recorded), SetPadding(0..3), SkipSpaces, ReadRune, FindClosure('[',']', all 8 option sets, no Advance), AdvanceAndSetPadding, SkipBlankLines, FindClosure(Advance)+PrecendingCharacter; quick: reader (n<=3,k=2), (n=2,k=3 over 5 bytes), (n=4,k=2 over 3 bytes); block reader (n<=2,k=2), (n=3,k=1), (n=3,k=2 over 3 bytes); thorough: reader (3,3),(5,2 small); block (3,2),(5,2 small)",
		"block":     "BlockReader line lists: every suffix of the source's physical lines, first two lines with optional 1-byte skip and padding 0..2",
		"segment":   "Segment{Start,Stop,Padding} over every buffer of length 3 (4 over a 3-byte alphabet), all start<=stop, padding 0..3",
		"outside":   "Match/FindSubMatch (regexp over the reader), longer sources and histories, BlockReader.Value across lines",
	}
	p.Assumptions = []string{"oracle: the flattened remaining view computed from Position() and the source; each call is specified as a relation between the view before and after (no re-implementation of the cursor)"}
	return p, nil
}

// convertFamilies builds the shared input families for whole-Convert/Parse harnesses.
// lightFamilies selects smaller alphabets/token lengths in the quick tier for harnesses that run
// several conversions per path.
var lightFamilies = false

func convertFamilies(entry string, tier string, seed int64, cfgsS2, cfgsS3, cfgsDeep []string, nwin int, extra ...interface{}) ([]interp.Job, map[string]interface{}, error) {
	var jobs []interp.Job
	thorough := tier == "thorough"
	light := lightFamilies && !thorough
	lightFamilies = false
	for _, c := range cfgsS2 {
		for n := 0; n <= 2; n++ {
			jobs = append(jobs, job(entry, append([]interface{}{"cfg", c, "n", n}, extra...)...))
		}
	}
	for _, c := range cfgsS3 {
		jobs = append(jobs, job(entry, append([]interface{}{"cfg", c, "n", 3}, extra...)...))
	}
	la := 4
	if thorough {
		la = 6
	}
	if light {
		la = 3
	}
	anames := []string{"blocks", "inline", "fences", "entity", "lists"}
	jobs = append(jobs, alphaJobs(entry, anames, la, cfgsDeep, extra...)...)
	if thorough {
		jobs = append(jobs, tokenJobs(entry, []string{"containers"}, 7, cfgsDeep, extra...)...)
		jobs = append(jobs, tokenJobs(entry, []string{"inlines", "blocks2"}, 5, cfgsDeep, extra...)...)
	} else if light {
		jobs = append(jobs, tokenJobs(entry, []string{"contain5"}, 4, cfgsDeep[len(cfgsDeep)-1:], extra...)...)
		jobs = append(jobs, tokenJobs(entry, []string{"inlines9", "blocks2"}, 3, cfgsDeep[len(cfgsDeep)-1:], extra...)...)
	} else {
		jobs = append(jobs, tokenJobs(entry, []string{"contain5"}, 5, cfgsDeep, extra...)...)
		jobs = append(jobs, tokenJobs(entry, []string{"inlines9", "blocks2"}, 4, cfgsDeep[:1], extra...)...)
	}
	jobs = append(jobs, tmplJobs(entry, coreTemplates, cfgsDeep[len(cfgsDeep)-1:], extra...)...)
	docs, err := LoadCorpus()
	if err != nil {
		return nil, nil, err
	}
	jobs = append(jobs, windowJobs(entry, docs, seed, nwin, 1, cfgsDeep, extra...)...)
	// per-extension syntax, attribute blocks, long documents (plans3.go); parser/renderer options of the last deep configuration
	lastParts := strings.SplitN(cfgsDeep[len(cfgsDeep)-1], "|", 3)
	for len(lastParts) < 3 {
		lastParts = append(lastParts, "")
	}
	ej, eb := extFamilyJobs(entry, thorough, light, lastParts[1], lastParts[2], nil, extra...)
	deepExtFamilies = false
	aj, ab := attrFamilyJobs(entry, thorough, light, []string{"core", allExt}, lastParts[2], extra...)
	lj, lb := longDocJobs(entry, thorough, light, cfgsDeep, extra...)
	jobs = append(append(append(jobs, ej...), aj...), lj...)
	sj, sb := extSeedJobs(entry, thorough, light, []string{cfgsDeep[len(cfgsDeep)-1], cfg("gfm,footnote,deflist", lastParts[1], lastParts[2])}, extra...)
	jobs = append(jobs, sj...)
	b := map[string]interface{}{
		"ext seeds":     sb,
		"extensions":    eb,
		"attributes":    ab,
		"long":          lb,
		"S(2)":          "every byte string of length 0..2 (256 values per byte) x " + fmt.Sprint(cfgsS2),
		"S(3)":          "every byte string of length 3 x " + fmt.Sprint(cfgsS3),
		"S(L,alphabet)": fmt.Sprintf("every string of length %d over each alphabet %v x %v", la, alphabets, cfgsDeep),
		"tokens":        fmt.Sprintf("token sequences (quick: 5 of contain5, 4 of inlines9/blocks2 - or 4 and 3 for the multi-conversion harnesses C06/C07/C09/C10; thorough: 7 of containers, 5 of inlines/blocks2): %v", tokenSets),
		"templates":     fmt.Sprintf("%d seed templates with a 2-byte fully symbolic window x %v", len(coreTemplates), cfgsDeep[len(cfgsDeep)-1:]),
		"W(C,1)":        fmt.Sprintf("%d seeded (corpus document <=160 bytes, offset) pairs with one fully symbolic byte (VERIF_SEED=%d) x %v", nwin, seed, cfgsDeep),
		"outside":       "longer free-form inputs, wider windows, user extensions",
	}
	return jobs, b, nil
}

func planC05(tier string, seed int64) (*Plan, error) {
	p := &Plan{MustReach: []string{"done"}}
	var cfgs []string
	for _, e := range extSets {
		for _, po := range []string{"", "autoid,attr"} {
			cfgs = append(cfgs, cfg(e, po, ""))
		}
	}
	core, gfm, all := cfg("core", "", ""), cfg("gfm", "", ""), cfg(allExt, "autoid,attr", "")
	s3 := []string{core, gfm}
	nwin := 150
	if tier == "thorough" {
		s3 = cfgs
		nwin = 3000
	}
	deepExtFamilies = true
	jobs, b, err := convertFamilies("H_c05_parse", tier, seed, cfgs, s3, []string{core, all}, nwin)
	if err != nil {
		return nil, err
	}
	// table and setext shapes (the InsertAfter sites) over small alphabets
	jobs = append(jobs, job("H_c05_parse", "cfg", gfm, "n", 5, "alpha", "a|-:\n"))
	jobs = append(jobs, job("H_c05_parse", "cfg", core, "n", 6, "alpha", "a-=\n >"))
	jobs = append(jobs, alphaJobs("H_c05_parse", []string{"blocks"}, 6, []string{core})...)
	jobs = append(jobs, tokenJobs("H_c05_parse", []string{"nestlinks"}, 7, []string{core})...)
	dj, db := deepNestJobs("H_c05_parse", tier == "thorough", []string{all, gfm})
	jobs = append(jobs, dj...)
	b["deep"] = db
	p.Jobs = jobs
	b["extra"] = "S(5,{a,|,-,:,LF}) with GFM (tables), S(6,{a,-,=,LF,space,>}) and S(6,blocks) core, every sequence of 7 tokens from 'nestlinks' (nested link/image/emphasis constructs)"
	p.Bounds = b
	p.Rule = "every node of every tree returned by Parse on every path is checked through the public ast.Node accessors"
	return p, nil
}

func planC12(tier string, seed int64) (*Plan, error) {
	p := &Plan{MustReach: []string{"done"}}
	core, all := cfg("core", "", ""), cfg(allExt, "autoid,attr", "")
	cfgs := []string{core, cfg("gfm", "", "unsafe"), cfg("deflist,footnote", "", ""), cfg("typographer,cjk", "attr", "xhtml"), all}
	s3 := []string{core}
	nwin := 150
	if tier == "thorough" {
		s3 = cfgs
		nwin = 3000
	}
	jobs, b, err := convertFamilies("H_c12_convert", tier, seed, cfgs, s3, []string{core, all}, nwin)
	if err != nil {
		return nil, err
	}
	jobs = append(jobs, job("H_c12_convert", "cfg", core, "n", 7, "alpha", "`a\n "))
	jobs = append(jobs, job("H_c12_convert", "cfg", all, "n", 6, "alpha", "`a\n|-"))
	nu := 2
	if tier == "thorough" {
		nu = 3
	}
	for n := 0; n <= nu; n++ {
		jobs = append(jobs, job("H_c12_util", "n", n))
	}
	jobs = append(jobs, job("H_c12_util", "n", nu+2, "alpha", "a \t\nA&;"))
	jobs = append(jobs, job("H_c12_util", "n", nu+3, "alpha", "a \n"))
	p.Jobs = jobs
	b["extra"] = "S(7,{`,a,LF,space}) core and S(6,{`,a,LF,|,-}) all extensions (code spans and tables across lines)"
	b["util"] = fmt.Sprintf("each of 14 groups of exported util functions on every byte string of length 0..%d (256 values), length %d over {a,space,TAB,LF,A,&,;} and length %d over {a,space,LF}; argument placed in a buffer with 4 bytes of spare capacity", nu, nu+2, nu+3)
	p.Bounds = b
	p.Assumptions = []string{"the write barrier is the interpreter's: every Store, copy and in-place append targeting a cell of the source buffer (or of the 8 sentinel bytes of spare capacity behind it) is reported, whether or not it changes the byte; a real PROT_READ page fault is not produced"}
	p.Rule = "source buffer and its spare capacity under a read-only write barrier during Convert and Parse+Render"
	return p, nil
}

var stateProbes = []string{
	"[a]: /u \"t\"\n\n[a] [b]\n",
	"# a\n\n# a\n",
	"x[^1]\n\n[^1]: f\n",
	"\"a\" 'b'\n",
	"| a | b |\n|:--|--:|\n| 1 | 2 |\n",
	"```go\nx\n```\n",
}

func planC06(tier string, seed int64) (*Plan, error) {
	p := &Plan{MustReach: []string{"done"}}
	core, gfm, all := cfg("core", "", ""), cfg("gfm", "", "xhtml"), cfg(allExt, "autoid,attr", "")
	cfgs := []string{core, gfm, cfg("footnote,typographer", "autoid", ""), all}
	s3 := []string{}
	nwin := 120
	if tier == "thorough" {
		s3 = []string{core, all}
		nwin = 2000
	}
	var jobs []interp.Job
	for h := 0; h < 7; h++ {
		// each history document is paired with a slice of the families; all of them see S(2)
		for _, c := range cfgs {
			for n := 0; n <= 2; n++ {
				if (h+n)%3 == 0 || tier == "thorough" {
					jobs = append(jobs, job("H_c06_pure", "cfg", c, "n", n, "hist", h))
				}
			}
		}
	}
	lightFamilies = true
	fam, b, err := convertFamilies("H_c06_pure", tier, seed, nil, s3, []string{gfm, all}, nwin, "hist", int(seed%7))
	if err != nil {
		return nil, err
	}
	jobs = append(jobs, fam...)
	// symbolic history, concrete state-sensitive probe
	an := 2
	for i, pr := range stateProbes {
		c := all
		if i%2 == 1 {
			c = gfm
		}
		for n := 1; n <= an; n++ {
			jobs = append(jobs, job("H_c06_pure", "cfg", c, "symhist", 1, "an", n, "probe", pr))
		}
		jobs = append(jobs, job("H_c06_pure", "cfg", c, "symhist", 1, "an", 3, "alpha", "[]:a\n#\"^", "probe", pr))
	}
	// aligned tables, rendered twice
	jobs = append(jobs, job("H_c06_pure", "cfg", gfm, "n", 5, "alpha", "a|-:\n", "hist", 4))
	// extensions configured with options (footnote id prefix / titles / classes / back-link HTML with the ^^ index and
	// %% reference-count placeholders, id prefix function, linkify protocols, table alignment none): same-shaped
	// documents with different counts converted one after the other
	optPairs := [][2]string{
		{"x[^1] y[^1]\n\n[^1]: f\n", "x[^1]\n\n[^1]: f\n"},
		{"x[^1]\n\n[^1]: f\n", "x[^1] y[^1] z[^1]\n\n[^1]: f\n"},
		{"a[^1] b[^2]\n\n[^1]: f\n\n[^2]: g\n", "a[^2] b[^1] c[^2]\n\n[^1]: f\n\n[^2]: g\n"},
		{"| a |\n|:-:|\n| http://a.b |\n", "| a | b |\n|--:|:--|\n| x-y://c | d |\n"},
	}
	optCfgs := []string{cfg("footnoteopts,linkifyopts,tablenone", "", ""), cfg("footnotefn,table", "autoid", "xhtml"), cfg("footnoteopts,typographer", "attr", "unsafe")}
	for i, pr := range optPairs {
		for j, c := range optCfgs {
			if (i+j)%2 == 0 || tier == "thorough" {
				jobs = append(jobs, job("H_c06_pure", "cfg", c, "histdoc", pr[0], "seed", pr[1], "pos", len(pr[1]), "window", 1))
				jobs = append(jobs, job("H_c06_pure", "cfg", c, "histdoc", pr[1], "seed", pr[0], "pos", 1+i, "window", 1))
			}
		}
	}
	for _, c := range optCfgs {
		for n := 0; n <= 2; n++ {
			jobs = append(jobs, job("H_c06_pure", "cfg", c, "n", n, "hist", 2))
		}
	}
	p.Jobs = jobs
	b["S(2)"] = "probe document B: every byte string of length 0..2 x " + fmt.Sprint(cfgs) + " x 7 state-rich history documents A (link references, duplicate headings, footnotes, quotes, aligned table, fenced info, definition list)"
	b["symbolic-history"] = fmt.Sprintf("history document A: every byte string of length 1..2 and length 3 over {[,],:,a,LF,#,\",^} x %d state-sensitive probe documents B", len(stateProbes))
	b["tables"] = "S(5,{a,|,-,:,LF}) with GFM, same tree rendered twice"
	b["options"] = fmt.Sprintf("extensions configured with options %v: %d pairs of same-shaped documents with different footnote reference counts / table shapes converted one after the other (one symbolic byte), and S(2) after a footnote history", optCfgs, len(optPairs))
	p.Bounds = b
	p.Assumptions = []string{"histories: o1=conv(B); conv(A); o2=conv(B) on one instance, o3 on a fresh instance, o4=Render(Parse(B)), o5=Render of the same tree; the shared instance and all goldmark package globals are under a write barrier during these calls, so no state can outlive a conversion on the explored inputs (this is what extends two-document histories to histories of any length)"}
	p.Rule = "relational assertions over five outputs per path plus the frozen-state monitor"
	return p, nil
}

func planC07(tier string, seed int64) (*Plan, error) {
	p := &Plan{MustReach: []string{"done"}, Level: "other"}
	var cfgs []string
	for _, e := range extSets {
		cfgs = append(cfgs, cfg(e, "", ""))
	}
	all := cfg(allExt, "autoid,attr", "unsafe,xhtml,hardwraps")
	cfgs = append(cfgs, all)
	s3 := []string{}
	nwin := 100
	if tier == "thorough" {
		s3 = []string{cfg("core", "", ""), all}
		nwin = 1500
	}
	lightFamilies = true
	jobs, b, err := convertFamilies("H_c07_shared", tier, seed, cfgs, s3, []string{cfg("gfm", "", ""), all}, nwin)
	if err != nil {
		return nil, err
	}
	p.Jobs = jobs
	p.Bounds = b
	p.Assumptions = []string{
		"SUFFICIENT CONDITION, not schedule exploration: no goroutine interleaving is executed and no race-detector verdict is produced. Decided for every explored input: (a) after first use a Convert/Parse/Render call stores nothing into cells reachable from the shared instance or from goldmark's package globals; (b) during first use every such store lies inside the dynamic extent of (*sync.Once).Do. (a)+(b) leave no unsynchronised conflicting access, so every schedule is race-free and each call returns what it returns alone.",
		"sync.Once, sync.Pool (inside regexp and fmt) and bufio are trusted to meet their documented contracts; loads of Once-initialised cells are not tracked; rendering the same tree from two goroutines is outside",
	}
	p.Rule = "fresh instance per path, frozen together with all goldmark globals before its first use"
	return p, nil
}

func planC14(tier string, seed int64) (*Plan, error) {
	p := &Plan{MustReach: []string{"done", "failed", "not-failed"}}
	core, allU := cfg("core", "", ""), cfg(allExt, "autoid,attr", "unsafe,xhtml")
	thorough := tier == "thorough"
	for _, c := range []string{core, allU} {
		for n := 0; n <= 2; n++ {
			p.Jobs = append(p.Jobs, job("H_c14_writer", "cfg", c, "n", n, "mode", 0))
			p.Jobs = append(p.Jobs, job("H_c14_writer", "cfg", c, "n", n, "mode", 1, "bufsize", 16))
		}
	}
	docs, err := LoadCorpus()
	if err != nil {
		return nil, err
	}
	nd := 60
	if thorough {
		nd = 800
	}
	r := rand.New(rand.NewSource(seed))
	picked := 0
	for _, i := range r.Perm(len(docs)) {
		d := docs[i]
		if len(d.Markdown) == 0 || len(d.Markdown) > 90 {
			continue
		}
		mode := picked % 2
		p.Jobs = append(p.Jobs, job("H_c14_writer", "cfg", allU, "doc", d.Markdown, "mode", mode, "bufsize", 16+picked%3*8))
		picked++
		if picked >= nd {
			break
		}
	}
	// documents whose output exceeds the renderer's 4096-byte buffer once and twice, and one
	// unbroken chunk larger than the buffer (bufio's direct-write path)
	big := []struct {
		doc string
		rep int
	}{{"a *b* `c` <i>d</i> &amp; [e](f)\n\n", 120}, {"a *b* `c` <i>d</i> &amp; [e](f)\n\n", 260}, {"xxxxxxxxxxxxxxxxxxxxxxxxxxxxxxxxxxxxxxxx", 230}, {"    cccccccccccccccccccccccccccccccccccccccccccccccccccccccccccc", 150}}
	for _, b := range big {
		for _, k := range []int{0, 1, 4095, 4096, 4097, 8191, 8192, 8193, 5000, 9000} {
			p.Jobs = append(p.Jobs, job("H_c14_writer", "cfg", allU, "doc", b.doc, "repeat", b.rep, "mode", 0, "k", k))
		}
		for _, ke := range []int{-1, 0, 1} {
			p.Jobs = append(p.Jobs, job("H_c14_writer", "cfg", allU, "doc", b.doc, "repeat", b.rep, "mode", 0, "kend", ke))
		}
		p.Jobs = append(p.Jobs, job("H_c14_writer", "cfg", allU, "doc", b.doc, "repeat", b.rep, "mode", 1, "bufsize", 4096, "k", 4500))
	}
	p.Bounds = map[string]interface{}{
		"symbolic documents": "every byte string of length 0..2 x {core, all extensions+unsafe+xhtml} x every fault offset k in [0, len(output)+1] (symbolic), renderer-owned 4096-byte buffer and caller-owned 16-byte bufio.Writer",
		"corpus":             fmt.Sprintf("%d seeded corpus documents (<=90 bytes) x every fault offset k (symbolic), alternating renderer-owned buffer and caller-owned bufio.Writer of 16/24/32 bytes", nd),
		"large":              "4 generated documents with 4.5-10 KB of output (several flushes; one unbroken 9 KB chunk) x k in {0,1,4095,4096,4097,5000,8191,8192,8193,9000,len-1,len,len+1}",
		"writer":             "accepts exactly k bytes, then short write + error, then fails on every call",
		"outside":            "node-renderer errors, writers that fail transiently and recover",
	}
	return p, nil
}

// ---- C11 ----

var c11Exts = []string{"strike", "table", "tasklist", "footnote", "deflist", "typographer", "linkify", "cjk", "cjkesc", "cjkcss3"}

// alphabets that stress the machinery each extension shares with the core (never containing its trigger set)
var c11Alpha = map[string]string{
	"strike":      "a *_\n\\`[",
	"table":       "a|:\n *>",
	"tasklist":    "a-x] \n*1.",
	"footnote":    "a[]^:\n (",
	"deflist":     "a\n ~-*>",
	"typographer": "a\n *_`&;",
	"linkify":     "a \n\t#*_(w.",
	"cjk":         "a\n *_\\.[",
	"cjkesc":      "a\n *_\\.[",
	"cjkcss3":     "a\n *_\\.[",
}

func planC11(tier string, seed int64) (*Plan, error) {
	p := &Plan{MustReach: []string{"done"}}
	thorough := tier == "thorough"
	var jobs []interp.Job
	bases := func(x string) []string {
		// base configurations the extension is added to: core, and "the other extensions"
		switch x {
		case "cjk", "cjkesc", "cjkcss3":
			return []string{"core", "gfm,deflist,footnote,typographer"}
		case "strike", "table", "tasklist", "linkify":
			var rest []string
			for _, o := range []string{"table", "strike", "linkify", "tasklist"} {
				if o != x {
					rest = append(rest, o)
				}
			}
			return []string{"core", rest[0] + "," + rest[1] + "," + rest[2] + ",deflist,footnote,typographer,cjk"}
		}
		var rest string
		for _, o := range []string{"deflist", "footnote", "typographer"} {
			if o != x {
				rest += "," + o
			}
		}
		return []string{"core", "gfm" + rest + ",cjk"}
	}
	for i, x := range c11Exts {
		bs := bases(x)
		for bi, b := range bs {
			ro := ""
			if bi == 1 {
				ro = "unsafe,xhtml"
			}
			for n := 0; n <= 2; n++ {
				jobs = append(jobs, job("H_c11_conservative", "ext", x, "base", b, "ropts", ro, "n", n))
			}
			la := 4
			if thorough {
				la = 6
			}
			jobs = append(jobs, job("H_c11_conservative", "ext", x, "base", b, "ropts", ro, "n", la, "alpha", c11Alpha[x]))
			if bi == 0 {
				jobs = append(jobs, job("H_c11_conservative", "ext", x, "base", b, "n", la+1, "alpha", c11Alpha[x][:5]))
			}
		}
		if thorough || int(seed+int64(i))%5 == 0 {
			jobs = append(jobs, job("H_c11_conservative", "ext", x, "base", "core", "n", 3))
		}
		if thorough {
			jobs = append(jobs, job("H_c11_conservative", "ext", x, "base", bs[1], "popts", "autoid,attr", "n", 3))
		}
	}
	// the two shapes of the design-time findings, long enough to hold them
	jobs = append(jobs, job("H_c11_conservative", "ext", "linkify", "base", "core", "n", 7, "alpha", "a \n#"))
	jobs = append(jobs, job("H_c11_conservative", "ext", "cjk", "base", "core", "n", 6, "alpha", "a\n*["))
	// GFM == its four members, no Assume
	for _, ex := range []string{"", "footnote,typographer"} {
		for n := 0; n <= 2; n++ {
			jobs = append(jobs, job("H_c11_gfm", "extra", ex, "n", n))
		}
		jobs = append(jobs, job("H_c11_gfm", "extra", ex, "n", 4, "alpha", "a|-\n~[] x:w.@"))
	}
	gfmSeeds := append([]string{"| a |\n|---|\n| `x \\| y` |\n", "a|b\n-|:-\n`c\\|d`|~~e~~\n", "- [x] www.a.bc ~~s~~\n", "| [ ] |\n|-|\n| x@y.zw |\n"}, c11Seeds...)
	for i, sd := range gfmSeeds {
		ex := []string{"", "footnote,typographer"}[i%2]
		for _, q := range []int{len(sd), (i*5 + int(seed)) % len(sd)} {
			jobs = append(jobs, job("H_c11_gfm", "extra", ex, "seed", sd, "pos", q, "window", 1))
		}
	}
	if thorough {
		jobs = append(jobs, job("H_c11_gfm", "n", 3))
		jobs = append(jobs, job("H_c11_gfm", "n", 6, "alpha", "a|-\n~:w."))
	}
	// corpus windows: documents that already lack the trigger set
	docs, err := LoadCorpus()
	if err != nil {
		return nil, err
	}
	nwin := 12
	if thorough {
		nwin = 250
	}
	for i, x := range c11Exts {
		var ok []Doc
		for _, d := range docs {
			if !hasTrigger(x, d.Markdown) {
				ok = append(ok, d)
			}
		}
		for _, sl := range corpusSlice(ok, seed+int64(i), 120, nwin) {
			jobs = append(jobs, job("H_c11_conservative", "ext", x, "base", "core", "ropts", "unsafe", "seed", sl.D.Markdown, "pos", sl.Pos, "window", 1))
		}
	}
	// documents that use the syntax of the *other* extensions (so that X added to "all others" meets
	// live shared machinery), with a one-byte symbolic window; only seeds free of X's trigger set are used
	r11 := rand.New(rand.NewSource(seed))
	for _, x := range c11Exts {
		bs := bases(x)
		for _, sd := range c11Seeds {
			if hasTrigger(x, sd) && !(x == "linkify" && !hasTriggerStrict(x, sd)) {
				continue
			}
			var poss []int
			if thorough {
				for q := 0; q <= len(sd); q++ {
					poss = append(poss, q)
				}
			} else {
				poss = []int{r11.Intn(len(sd) + 1), len(sd)}
			}
			for _, q := range poss {
				jobs = append(jobs, job("H_c11_conservative", "ext", x, "base", bs[1], "seed", sd, "pos", q, "window", 1))
			}
		}
	}
	p.Jobs = jobs
	p.Bounds = map[string]interface{}{
		"feature seeds": fmt.Sprintf("X added to all other extensions on %d documents that use the other extensions' syntax (those free of X's triggers), one symbolic byte at a seeded offset and one appended (thorough: every offset): %q", len(c11Seeds), c11Seeds),
		"extensions":    fmt.Sprint(c11Exts) + " (cjk = extension.CJK, cjkesc = escaped space only, cjkcss3 = CSS3-draft line breaks), each added to {core, all other built-in extensions}",
		"S(2)":          "every byte string of length 0..2 without the trigger set, both bases; S(3) for a seeded fifth of the extensions (all in thorough)",
		"S(L,alphabet)": fmt.Sprintf("length 4 (thorough 6) over a per-extension 8-byte alphabet and length 5 (7) over its first 5 bytes: %v", c11Alpha),
		"findings":      "S(7,{a,space,LF,#}) Linkify; S(6,{a,LF,*,[}) CJK",
		"GFM":           "GFM vs Table+Strikethrough+Linkify+TaskList: every feature seed plus 4 table/code-span/task-list seeds with one symbolic byte at 2 offsets; S(2) and S(4,{a,|,-,LF,~,[,],space,x,:,w,.,@}) with and without Footnote+Typographer",
		"W(C,1)":        fmt.Sprintf("%d seeded (trigger-free corpus document, offset) pairs per extension with one symbolic byte (assumed outside the trigger set)", nwin),
		"outside":       "longer inputs; combinations of parser options other than autoid+attr",
	}
	p.Rule = "two conversions per path (with and without the extension), outputs asserted byte-equal"
	return p, nil
}

var c11Seeds = []string{
	"see www.a.bc now\n", "go http://a.bc/d?e=f x\n", "m x@y.zw p\n", "* i\twww.a.bc\n", "(www.a.bc)\n",
	"~~s~~ t\n", "| a | b |\n|---|:-:|\n| c | d |\n", "- [ ] t\n- [x] u\n", "a[^1] b\n\n[^1]: f\n", "t\n: d\n\n  e\n",
	"\"q\" 'r' -- ... <<x>>\n", "# h {#i .c}\n\nh\n===\n", "`c` *e* __s__ [l](u \"t\")\n", "a\\ b c\\\nd  \ne\n", "> q\n\n1. o\n\n    c\n",
	"<b>r</b> &amp; &#35; \\*\n", "```go\nx\n```\n", "![i](u) <http://a.bc>\n", "a\n*b*\n**c**\n[d](e)\n`f`\n",
}

// hasTriggerStrict is hasTrigger without the over-approximation used for window placement.
func hasTriggerStrict(ext, s string) bool {
	if ext == "linkify" {
		for i := 0; i < len(s); i++ {
			if s[i] == ':' || s[i] == '@' {
				return true
			}
			if i+4 <= len(s) && s[i:i+4] == "www." {
				return true
			}
		}
		return false
	}
	return hasTrigger(ext, s)
}

func hasTrigger(ext, s string) bool {
	has := func(set string) bool {
		for i := 0; i < len(s); i++ {
			for j := 0; j < len(set); j++ {
				if s[i] == set[j] {
					return true
				}
			}
		}
		return false
	}
	sub := func(t string) bool {
		for i := 0; i+len(t) <= len(s); i++ {
			if s[i:i+len(t)] == t {
				return true
			}
		}
		return false
	}
	switch ext {
	case "strike":
		return has("~")
	case "table":
		return has("-")
	case "tasklist":
		return has("[")
	case "footnote":
		return sub("[^")
	case "deflist":
		return has(":")
	case "typographer":
		return has("'\"-.<>")
	case "linkify":
		return has(":@") || sub("www.") || sub("ww") // a window byte could complete www.
	case "cjk", "cjkesc", "cjkcss3":
		for i := 0; i < len(s); i++ {
			if s[i] >= 0x80 {
				return true
			}
		}
		return sub("\\ ") || sub("\\")
	}
	return true
}

func init() { Plans["C11"] = planC11 }

// ---- C08 ----

func noTabCR(s string) bool {
	for i := 0; i < len(s); i++ {
		if s[i] == '\t' || s[i] == '\r' {
			return false
		}
	}
	return true
}

func isBlankDoc(s string) bool {
	for i := 0; i < len(s); i++ {
		if s[i] != ' ' && s[i] != '\n' && s[i] != '\v' && s[i] != '\f' {
			return false
		}
	}
	return true
}

func planC08(tier string, seed int64) (*Plan, error) {
	p := &Plan{MustReach: []string{"done"}}
	thorough := tier == "thorough"
	coreU, coreS, gfmX, gfmS := cfg("core", "", "unsafe"), cfg("core", "", ""), cfg("gfm", "", "unsafe,xhtml"), cfg("gfm", "", "")
	cfgs := []string{coreU, coreS, gfmX, gfmS}
	var jobs []interp.Job
	for _, c := range cfgs {
		for n := 1; n <= 2; n++ {
			jobs = append(jobs, job("H_c08_quote", "cfg", c, "n", n))
			jobs = append(jobs, job("H_c08_quote", "cfg", c, "n", n, "nest", 2))
		}
	}
	s3 := []string{coreU}
	if thorough {
		s3 = cfgs
	}
	for _, c := range s3 {
		jobs = append(jobs, job("H_c08_quote", "cfg", c, "n", 3))
	}
	// alphabets: HTML block starts of every type, fences, lists, setext, tables
	la := 5
	if thorough {
		la = 7
	}
	alphas := []string{"<!-\na>", "<?\na>", "<!A\n>a", "<![CDAT\n]>", "<pre>\n/a", "<div\n> a", "`~\na ", "-1. \na", "a=-\n #", "a|-:\n "}
	for i, a := range alphas {
		c := cfgs[i%len(cfgs)]
		if i == len(alphas)-1 {
			c = gfmX
		}
		n := la
		if len(a) > 6 {
			n = la - 1
		}
		jobs = append(jobs, job("H_c08_quote", "cfg", c, "n", n, "alpha", a))
	}
	// the multi-line HTML block shapes (types 1-7): closed block followed by a line, as tokens
	htmlPairs := [][2]string{{"<!--", "-->"}, {"<?", "?>"}, {"<!A", ">"}, {"<![CDATA[", "]]>"}, {"<pre>", "</pre>"}, {"<div>", "<a>"}}
	nt := 5
	if thorough {
		nt = 6
	}
	var htmlToks [][]string
	for i, hp := range htmlPairs {
		ts := []string{hp[0], hp[1], "\n", "a", " "}
		htmlToks = append(htmlToks, ts)
		jobs = append(jobs, job("H_c08_quote", "cfg", cfgs[i%2], "n", nt, "tokens", joinTok(ts)))
		jobs = append(jobs, job("H_c08_quote", "cfg", cfgs[(i+1)%2], "n", nt-1, "nest", 2, "tokens", joinTok(ts)))
	}
	jobs = append(jobs, tokenJobs("H_c08_quote", []string{"contain5"}, nt, []string{coreU})...)
	jobs = append(jobs, tokenJobs("H_c08_quote", []string{"blocks2noTab"}, nt-2, []string{gfmX})...)
	// constructs that span lines (labels, titles, code spans, raw HTML, emphasis, hard breaks): inside a quote the
	// lines of one block are not contiguous in the source
	multi := []string{
		"[foo\nbar]\n\n[foo bar]: /url\n", "[foo\nbar][]\n\n[foo bar]: /url\n", "![foo\nbar]\n\n[foo bar]: /u\n", "[a][foo\nbar]\n\n[foo bar]: /u\n",
		"`a\nb` c\n", "x <a\nhref='y'> z\n", "[a](/u\n'ti tle') b\n", "*a\nb* **c\nd**\n", "[a]: /u\n  'mul\n  ti'\n\n[a]\n", "a  \nb\\\nc\n",
		"[a\nb](/u) ![c\nd](/v)\n", "<!-- a\nb --> c\n", "a <?x\ny?> b\n", "- [foo\n  bar]\n\n[foo bar]: /u\n", "a\n===\n\nb\nc\n---\n",
	}
	for i, sd := range multi {
		c := cfgs[i%len(cfgs)]
		for _, q := range []int{len(sd), (i * 7) % len(sd), (i*3 + int(seed)) % len(sd)} {
			jobs = append(jobs, job("H_c08_quote", "cfg", c, "seed", sd, "pos", q, "window", 1))
		}
		jobs = append(jobs, job("H_c08_quote", "cfg", c, "seed", sd, "pos", len(sd), "window", 1, "nest", 2))
	}
	// long documents (plans3.go): inside a quote the container never closes, so per-document tables keep growing
	longDocMaxN = 70
	lj, lb := longDocJobs("H_c08_quote", thorough, false, []string{coreU, gfmS})
	longDocMaxN = 40
	jobs = append(jobs, lj...)
	// corpus: W(C',1) over documents without TAB/CR
	docs, err := LoadCorpus()
	if err != nil {
		return nil, err
	}
	var ok []Doc
	for _, d := range docs {
		if noTabCR(d.Markdown) && !isBlankDoc(d.Markdown) {
			ok = append(ok, d)
		}
	}
	nwin := 150
	if thorough {
		nwin = 3000
	}
	jobs = append(jobs, windowJobs("H_c08_quote", ok, seed, nwin, 1, []string{gfmX, coreU, gfmS})...)
	// spec examples with the expected side taken from spec.json
	spec, err := LoadSpec()
	if err != nil {
		return nil, err
	}
	nspec := 0
	for _, d := range spec {
		if noTabCR(d.Markdown) && !isBlankDoc(d.Markdown) {
			jobs = append(jobs, job("H_c08_spec", "md", d.Markdown, "html", d.HTML, "name", d.Name))
			nspec++
		}
	}
	p.Jobs = jobs
	p.Bounds = map[string]interface{}{
		"S(2)":          "every non-blank TAB/CR-free byte string of length 1..2 x " + fmt.Sprint(cfgs) + ", quoted once and twice; S(3) x " + fmt.Sprint(s3),
		"S(L,alphabet)": fmt.Sprintf("length %d (one less for alphabets over 6 bytes) over each of %q", la, alphas),
		"tokens":        fmt.Sprintf("every sequence of %d tokens from each of %q (HTML block types 1-7 opened, closed and followed by more lines; %d tokens quoted twice), %d from contain5, %d from blocks2 without TAB (GFM)", nt, htmlToks, nt-1, nt, nt-2),
		"W(C',1)":       fmt.Sprintf("%d seeded (TAB/CR-free corpus document, offset) pairs with one symbolic byte", nwin),
		"multi-line":    fmt.Sprintf("%d documents whose inline constructs span lines (reference labels, titles, code spans, raw HTML, emphasis, hard breaks, Setext headings), one symbolic byte at 3 offsets, quoted once and twice", len(multi)),
		"long":          lb,
		"spec":          fmt.Sprintf("%d TAB/CR-free non-blank examples of _test/spec.json, quoted, against the expected HTML of spec.json wrapped in a blockquote (core, unsafe, XHTML)", nspec),
		"outside":       "longer free-form documents; quoting depth > 2",
	}
	p.Rule = "two conversions per path; the quoted document is built in the harness from the symbolic bytes"
	return p, nil
}

func init() {
	Plans["C08"] = planC08
	tokenSets["blocks2noTab"] = []string{"# ", "---", "\n", "a", "1. ", "  ", "<div>", "[a]: b", "|", "~~~"}
}

// ---- C09 ----

func hasAny(s, set string) bool {
	for i := 0; i < len(s); i++ {
		for j := 0; j < len(set); j++ {
			if s[i] == set[j] {
				return true
			}
		}
	}
	return false
}

func planC09(tier string, seed int64) (*Plan, error) {
	p := &Plan{MustReach: []string{"done"}}
	thorough := tier == "thorough"
	core, gfm := cfg("core", "", "unsafe"), cfg("gfm", "", "")
	var jobs []interp.Job
	for _, c := range []string{core, gfm} {
		for an := 0; an <= 2; an++ {
			for bn := 0; bn <= 2; bn++ {
				if an+bn <= 3 && (thorough || an+bn < 3 || (c == core && an == 2)) {
					jobs = append(jobs, job("H_c09_indep", "cfg", c, "an", an, "bn", bn))
				}
			}
		}
	}
	if thorough {
		jobs = append(jobs, job("H_c09_indep", "cfg", core, "an", 2, "bn", 2))
		jobs = append(jobs, job("H_c09_indep", "cfg", core, "an", 3, "bn", 0))
		jobs = append(jobs, job("H_c09_indep", "cfg", core, "an", 0, "bn", 3))
	}
	alphas := []string{"- \na>", "1.\n a#", "=-\na ", "*_\na\\", "+ \n>a", "a|-\n:"}
	na, nb := 3, 2
	if thorough {
		na, nb = 4, 3
	}
	for i, al := range alphas {
		c := core
		if i == len(alphas)-1 {
			c = gfm
		}
		jobs = append(jobs, job("H_c09_indep", "cfg", c, "an", na, "bn", nb, "alphaA", al, "alphaB", al))
		if thorough || (i+int(seed))%3 == 0 {
			jobs = append(jobs, job("H_c09_indep", "cfg", c, "an", na+1, "bn", 1, "alphaA", al, "alphaB", alphas[(i+1)%len(alphas)]))
		}
		if thorough || (i+int(seed))%3 == 1 {
			jobs = append(jobs, job("H_c09_indep", "cfg", c, "an", 1, "bn", na+1, "alphaA", alphas[(i+1)%len(alphas)], "alphaB", al))
		}
	}
	// unmatched backticks in A, code spans in B
	jobs = append(jobs, job("H_c09_indep", "cfg", core, "an", 2, "bn", 3, "alphaA", "`a\n", "alphaB", "`a\n"))
	jobs = append(jobs, job("H_c09_indep", "cfg", gfm, "an", 3, "bn", 3, "alphaA", "`a ", "alphaB", "`a"))
	// token sequences: list items (empty items, bare markers with the content on the next line), and table rows
	// with code spans and escaped pipes (state kept by the list parsers / the table transformer across blocks)
	listToks := joinTok([]string{"- ", "-", "\n", "  ", "a"})
	tblToks := joinTok([]string{"| a |\n|---|\n", "| `x` a\\|b |\n", "| `c\\|d` |\n", "| ` |\n", "a\n", "\n"})
	nl := 4
	if thorough {
		nl = 5
	}
	jobs = append(jobs, job("H_c09_indep", "cfg", core, "an", 2, "bn", nl, "tokensA", listToks, "tokensB", listToks))
	if thorough {
		jobs = append(jobs, job("H_c09_indep", "cfg", gfm, "an", 3, "bn", nl-1, "tokensA", listToks, "tokensB", listToks))
	} else {
		jobs = append(jobs, job("H_c09_indep", "cfg", gfm, "an", 2, "bn", 3, "tokensA", listToks, "tokensB", listToks))
	}
	jobs = append(jobs, job("H_c09_indep", "cfg", gfm, "an", 3, "bn", nl-2, "tokensA", tblToks, "tokensB", tblToks))
	// A closed by construction: a one-line or closed HTML block / a closed fence, with a symbolic byte inside; B free
	for i, ta := range []tmpl{{"<!XX>", 2, 2}, {"<!DOCTYPE hXml>", 11, 1}, {"<?X?>", 2, 1}, {"<!--X-->", 4, 1}, {"<![CDATA[X]]>", 9, 1}, {"<pre>X</pre>", 5, 1}, {"a\n\n<!X>", 5, 1}, {"```\nX\n```", 4, 1}, {"~~~~\nX\n~~~~\n", 5, 1}, {"<div>\nX\n</div>\n", 6, 1}} {
		c := []string{core, gfm}[i%2]
		jobs = append(jobs, job("H_c09_indep", "cfg", c, "trustA", 1, "seedA", ta.Seed, "posA", ta.Pos, "wA", ta.W, "bn", 1))
		jobs = append(jobs, job("H_c09_indep", "cfg", c, "trustA", 1, "seedA", ta.Seed, "posA", ta.Pos, "wA", ta.W, "bn", 3, "alphaB", "a\n >"))
	}
	docs, err := LoadCorpus()
	if err != nil {
		return nil, err
	}
	var okA, okB []Doc
	for _, d := range docs {
		if !hasAny(d.Markdown, "[\r") && len(d.Markdown) > 0 {
			okB = append(okB, d)
			if !hasAny(d.Markdown, "<") && !strings.Contains(d.Markdown, "```") && !strings.Contains(d.Markdown, "~~~") {
				okA = append(okA, d)
			}
		}
	}
	nwin := 60
	if thorough {
		nwin = 1200
	}
	for i, sl := range corpusSlice(okA, seed, 120, nwin) {
		c := []string{core, gfm}[i%2]
		jobs = append(jobs, job("H_c09_indep", "cfg", c, "seedA", sl.D.Markdown, "posA", sl.Pos, "wA", 1, "bn", 1))
	}
	for i, sl := range corpusSlice(okB, seed+1, 120, nwin) {
		c := []string{core, gfm}[i%2]
		jobs = append(jobs, job("H_c09_indep", "cfg", c, "seedB", sl.D.Markdown, "posB", sl.Pos, "wB", 1, "an", 1))
	}
	// pairs of corpus documents, one byte free in each
	ra := rand.New(rand.NewSource(seed + 2))
	for i := 0; i < nwin/2; i++ {
		da, db := okA[ra.Intn(len(okA))], okB[ra.Intn(len(okB))]
		if len(da.Markdown) > 100 || len(db.Markdown) > 100 {
			continue
		}
		jobs = append(jobs, job("H_c09_indep", "cfg", core, "seedA", da.Markdown, "posA", ra.Intn(len(da.Markdown)+1), "wA", 1, "seedB", db.Markdown, "posB", ra.Intn(len(db.Markdown)+1), "wB", 1))
	}
	// reference definitions from anywhere
	for r := 0; r < 11; r++ {
		for _, ws := range []string{" ", "  ", " \n ", "\t"} {
			if r >= 5 && ws != " " {
				continue
			}
			c := []string{core, gfm}[r%2]
			jobs = append(jobs, job("H_c09_refs", "cfg", c, "ref", r, "ws", ws))
		}
		for _, pad := range []int{300, 1100, 4200} {
			if r >= 5 {
				break
			}
			jobs = append(jobs, job("H_c09_refs", "cfg", core, "ref", r, "ws", " ", "pad", pad, "flipmask", ra.Intn(1<<20), "window", 1, "pos", pad+3+r))
		}
		// windows inside X with fixed label spelling flips still symbolic
		xl := 24
		step := 5
		if thorough {
			step = 1
		}
		for q := int(seed) % step; q <= xl && r < 5; q += step {
			jobs = append(jobs, job("H_c09_refs", "cfg", core, "ref", r, "ws", " ", "window", 1, "pos", q, "flipmask", ra.Intn(1<<20)))
		}
	}
	p.Jobs = jobs
	p.Bounds = map[string]interface{}{
		"S(an)xS(bn)":   "A and B jointly symbolic, every byte string: lengths (an,bn) with an+bn<=2 x {core unsafe, GFM safe} and (2,1) core (thorough: all an+bn<=3 both configurations, (2,2), (3,0), (0,3))",
		"alphabets":     fmt.Sprintf("A of length %d and B of length %d over the same alphabet; A of %d with B of 1 and A of 1 with B of %d over neighbouring alphabets (quick: a seeded third of them): %q", na, nb, na+1, na+1, alphas),
		"tokens":        fmt.Sprintf("A every sequence of 2 and B of %d tokens (GFM: 2 and 3; thorough 3 and %d) from {'- ', '-', LF, 2 spaces, a} (empty list items, bare markers with the content on the next line); A of 3 and B of %d tokens from table fragments with code spans and escaped pipes (GFM)", nl, nl-1, nl-2),
		"corpus":        fmt.Sprintf("%d seeded (closed corpus document A, offset) pairs with one symbolic byte and a free 1-byte B; the same for B with a free 1-byte A; %d pairs of corpus documents with one symbolic byte in each", nwin, nwin/2),
		"closed(A)":     "syntactic sufficient condition assumed by the solver: no < [ CR in A, no run of three backticks or tildes; last non-blank line of A has no TAB and no run of 4 spaces. B: no [ and no CR. In addition 10 templates of A closed by construction (one-line HTML blocks of types 2-5, <pre>, <div> block, closed fences) with a symbolic byte inside and a free B",
		"references":    "11 reference templates (6 of them ending in a one-line/closed HTML block or closed fence directly in front of the moved definitions) x 4 whitespace spellings inside labels x every per-letter case flip of every use of a label (symbolic bits); plus a 1-byte symbolic window (not ` ~ < : CR) at seeded offsets of X under a seeded case-flip mask; the same behind an unrelated paragraph of 300, 1100 and 4200 bytes",
		"outside":       "semantically closed documents that do not meet the syntactic condition; longer A/B",
	}
	p.Rule = "three conversions per path (A, B, joined) / two (definitions on top, at the end)"
	return p, nil
}

func init() { Plans["C09"] = planC09 }

// ---- C03 ----

// attack templates: URL-, title-, alt-, attribute-, info-string- and cell-bearing constructs with a
// window of fully symbolic bytes where the source text flows into markup.
var c03Templates = []tmpl{
	{"![XX](u \"t\")", 2, 2}, {"![a](XX \"t\")", 5, 2}, {"![a](u \"XX\")", 8, 2}, {"![a  \nXX](u)", 7, 2}, {"![*a*XX](u)", 5, 2},
	{"[a](<XX> 'T')", 5, 2}, {"[a](u 'XX')", 7, 2}, {"[a](u (XX))", 7, 2}, {"<http://a.bXX>", 11, 2}, {"<a@b.cXX>", 6, 2},
	{"# H {#XX}", 6, 2}, {"# H {.XX}", 6, 2}, {"# H {XX=v}", 5, 2}, {"# H {k=XX}", 7, 2}, {"# H {k=\"XX\"}", 8, 2}, {"# H {data-XX=1}", 10, 2}, {"# H {k='XX'}", 8, 2},
	{"H {#i XX}\n===", 6, 2}, {"```XX\nc\n```", 3, 2}, {"~~~ a XX\nc\n~~~", 6, 2}, {"```go {XX}\nc\n```", 7, 2},
	{"| a | XX |\n|---|:-:|\n| c | d |", 6, 2}, {"| a |\n|---|\n| XX |", 14, 2}, {"a[^1]\n\n[^1]: XX", 14, 2}, {"a[^XX]\n\n[^XX]: f", 3, 2},
	{"t XX\n: d", 2, 2}, {"t\n: XX", 5, 2}, {"\"XX\" 'a'", 1, 2}, {"a--XX...", 3, 2}, {"- [ ] XX", 6, 2}, {"~~XX~~", 2, 2},
	{"www.a.bXX c", 7, 2}, {"http://a.bc/XX d", 12, 2}, {"&XX;", 1, 2}, {"&#XX;", 2, 2}, {"&#xXX;", 3, 2}, {"<XX>", 1, 2}, {"<a XX>", 3, 2}, {"<!--XX-->", 4, 2},
	{"# t {data-l=[XX]}", 13, 2}, {"# t {data-l=[\"XX\"]}", 14, 2}, {"# t {class=[a, \"XX\"]}", 17, 2}, {"# t {data-l=[\"a\", XX]}", 18, 2}, {"t {title=[1, \"XX\"]}\n---", 14, 2}, {"# t {id=[\"XX\"]}", 10, 2}, {"# t {data-l=[\"\\XX\"]}", 15, 2},
	{"&#x0XX;", 4, 2}, {"&#x00XX;", 5, 2}, {"&#0XX;", 3, 2}, {"&#00XX;", 4, 2}, {"&#000XX;", 5, 2}, {"&#x000XX;", 6, 2}, {"[a](u \"&#x0XX;\")", 11, 2}, {"![&#0XX;](u)", 5, 2}, {"# H {k=\"&#x0XX;\"}", 12, 2},
	{"[a][XX]\n\n[XX]: u 't'", 4, 2}, {"[a]: u \"XX\"\n\n[a]", 8, 2}, {"`XX`", 1, 2}, {"    XX", 4, 2}, {"> XX", 2, 2}, {"1. XX", 3, 2}, {"\\XX", 1, 2},
}

func planC03(tier string, seed int64) (*Plan, error) {
	p := &Plan{MustReach: []string{"done"}}
	thorough := tier == "thorough"
	var cfgs []string
	for i, e := range extSets {
		for j, po := range []string{"", "autoid,attr"} {
			ro := ""
			if (i+j)%2 == 1 {
				ro = "xhtml"
			}
			cfgs = append(cfgs, cfg(e, po, ro))
			if thorough {
				ro2 := "xhtml"
				if ro == "xhtml" {
					ro2 = ""
				}
				cfgs = append(cfgs, cfg(e, po, ro2))
			}
		}
	}
	core, coreX, all, allX := cfg("core", "", ""), cfg("core", "attr", "xhtml"), cfg(allExt, "autoid,attr", ""), cfg(allExt, "autoid,attr", "xhtml,hardwraps")
	// extensions configured with options: footnote titles/classes/back-link HTML/id prefix (the titles hold quotes,
	// angle brackets and an ampersand), an id-prefix function, more linkify protocols, table alignment off
	optA, optB := cfg("gfm,footnoteopts,linkifyopts,tablenone", "attr", ""), cfg("footnotefn,typographer,deflist", "autoid", "xhtml")
	cfgs = append(cfgs, optA, optB)
	s3 := []string{core}
	nwin := 150
	if thorough {
		s3 = []string{core, coreX, all, allX}
		nwin = 3000
	}
	deepExtFamilies = true
	jobs, b, err := convertFamilies("H_c03_safe", tier, seed, cfgs, s3, []string{coreX, all}, nwin)
	if err != nil {
		return nil, err
	}
	for _, f := range extFamilies {
		if f.Name == "footnote" || f.Name == "linkify" || f.Name == "table" {
			for i, c := range []string{optA, optB} {
				kv := []interface{}{"cfg", c, "n", f.LQ - i}
				if f.Alpha != "" {
					kv = append(kv, "alpha", f.Alpha)
				} else {
					kv = append(kv, "tokens", joinTok(f.Tokens))
				}
				jobs = append(jobs, job("H_c03_safe", kv...))
			}
		}
	}
	// every named character reference of length 2..kmax (the name is symbolic over letters and digits: the lookup in
	// the HTML5 entity table forks per entity of that length), in text, in an image alt/title and in an info string
	entAlpha := "abcdefghijklmnopqrstuvwxyzABCDEFGHIJKLMNOPQRSTUVWXYZ0123456789"
	kmax := 6
	if thorough {
		kmax = 14
	}
	entCtx := [][2]string{{"a &", "; b"}, {"![&", ";](u \"&amp;\")"}, {"[a](u '&", ";')"}, {"```&", ";\nc\n```"}}
	for k := 2; k <= kmax; k++ {
		for ci, cx := range entCtx {
			if !thorough && k > 4 && ci != k%2 {
				continue
			}
			jobs = append(jobs, job("H_c03_safe", "cfg", []string{core, coreX, all}[(k+ci)%3], "n", k, "pre", cx[0], "post", cx[1], "alpha", entAlpha))
		}
	}
	for _, sd := range []string{"x[^1] y[^1]\n\n[^1]: f <b> \"q\"\n", "| a | b |\n|:-|-:|\n| http://x.y | x-y://z |\n"} {
		for q := 0; q < len(sd); q += 3 {
			jobs = append(jobs, job("H_c03_safe", "cfg", []string{optA, optB}[q%2], "seed", sd, "pos", q, "window", 1))
		}
	}
	tc := []string{allX}
	if thorough {
		tc = []string{allX, all, coreX}
	}
	jobs = append(jobs, tmplJobs("H_c03_safe", c03Templates, tc)...)
	if thorough {
		w3 := make([]tmpl, 0, len(c03Templates))
		for _, t := range c03Templates {
			if t.Pos+2 > len(t.Seed) || len(w3) >= 20 {
				continue // (a window at the very end of a seed has nothing behind it to keep)
			}
			w3 = append(w3, tmpl{t.Seed[:t.Pos] + "XXX" + t.Seed[t.Pos+2:], t.Pos, 3})
		}
		jobs = append(jobs, tmplJobs("H_c03_safe", w3, []string{allX})...)
	}
	// the typographer with substitutions switched off (a configuration of a built-in extension)
	typoT := []tmpl{{"<<XX>>", 2, 2}, {"a--XX...", 3, 2}, {"'XX' \"b\"", 1, 2}, {"<<a>>XX<</b>>", 5, 2}, {"![<<XX>>](u)", 4, 2}, {"| <<XX |\n|--|", 5, 2}, {"# <<XX>>", 4, 2}}
	for _, tc := range []string{cfg("typonoangle", "", ""), cfg("gfm,typonodash", "attr", "xhtml"), cfg("typonoquote,footnote", "", "")} {
		jobs = append(jobs, tmplJobs("H_c03_safe", typoT, []string{tc})...)
		for n := 0; n <= 2; n++ {
			jobs = append(jobs, job("H_c03_safe", "cfg", tc, "n", n))
		}
		jobs = append(jobs, job("H_c03_safe", "cfg", tc, "n", 4, "alpha", "<>-.'\"a"))
	}
	p.Jobs = jobs
	b["typographer variants"] = fmt.Sprintf("Typographer with the angle-quote / dash+ellipsis / quote substitutions disabled (nil): %d templates with 2-byte windows, S(2), S(4,{<,>,-,.,',\",a})", len(typoT))
	b["attack templates"] = fmt.Sprintf("%d templates (image alt/src/title, link destination/title, autolinks, {#id .class k=v data-*} attribute blocks on ATX and Setext headings, info strings, table cells, footnote labels and bodies, definition terms, typographer, task lists, linkify, entities, raw HTML, reference labels/titles) with a 2-byte fully symbolic window x %v (thorough: 3-byte windows on the first 20)", len(c03Templates), tc)
	b["named references"] = fmt.Sprintf("& + a symbolic name of 2..%d letters/digits + ; in paragraph text, image alt, link title and fenced-code info string: one path per entity of that length in goldmark's HTML5 table (plus the no-such-entity path)", kmax)
	b["configurations"] = "safe mode only: " + fmt.Sprint(cfgs) + "; the last two configure the Footnote, Linkify and Table extensions with their options (footnote/linkify/table families and two seeds with a sliding symbolic byte under them)"
	p.Bounds = b
	p.Assumptions = []string{"XML well-formedness is checked structurally (nesting, quoting, void elements written ' />', no '<' in attribute values, no duplicate attribute, every attribute has a value); character validity and named-entity declarations (XHTML DTD) are assumed, as the property allows ('whenever all its characters are representable')"}
	p.Rule = "the output of every path is tokenised by an independent strict tokenizer executed symbolically in the harness"
	return p, nil
}

func init() { Plans["C03"] = planC03 }

// ---- C04 ----

func planC04(tier string, seed int64) (*Plan, error) {
	p := &Plan{MustReach: []string{"done", "url"}}
	thorough := tier == "thorough"
	core, gfm, all, allX := cfg("core", "", ""), cfg("gfm", "", ""), cfg(allExt, "autoid,attr", ""), cfg(allExt, "attr", "xhtml")
	constructs := []struct{ pre, post string }{
		{"[a](", ")"}, {"[a](<", ">)"}, {"![a](", ")"}, {"[a]: ", "\n\n[a]"}, {"<", ">"}, {"[a]: <", "> 't'\n\n![b][a]"}, {"x ", " y"},
	}
	schemes := []string{"javascript:alert(1)", "vbscript:x", "file:///etc", "data:text/html,x", "data:image/png;b", "data:image/svg+xml;b", "JaVaScRiPt:a"}
	var jobs []interp.Job
	w := 2
	r := rand.New(rand.NewSource(seed))
	for ci, c := range constructs {
		for si, s := range schemes {
			colon := 0
			for colon < len(s) && s[colon] != ':' {
				colon++
			}
			conf := []string{core, all, gfm, allX}[(ci+si)%4]
			if c.pre == "x " {
				conf = gfm // extended autolinks
			}
			doc := c.pre + s + c.post
			base := len(c.pre)
			for q := -1; q <= colon+1; q++ {
				// quick: a seeded third of the window positions per (construct, scheme); thorough: all, and 3-byte windows
				if !thorough && r.Intn(3) != 0 && q != colon-1 && q != -1 {
					continue
				}
				pos := base + q
				if pos < 0 || pos+w > len(doc) {
					continue
				}
				jobs = append(jobs, job("H_c04_urls", "cfg", conf, "seed", doc, "pos", pos, "window", w))
				if thorough && q%2 == 0 && pos+3 <= len(doc) {
					jobs = append(jobs, job("H_c04_urls", "cfg", conf, "seed", doc, "pos", pos, "window", 3))
				}
			}
		}
	}
	// obfuscations that change the length: references and escapes with symbolic digits/letters
	obf := []tmpl{
		{"[a](&#XX6;avascript:a)", 7, 2}, {"[a](&#x6XX;avascript:a)", 9, 2}, {"[a](javascript&#XX;a)", 16, 2}, {"[a](javascript&#xXX;a)", 17, 2},
		{"[a](javascript&XXlon;a)", 15, 2}, {"[a](javascript&coXXn;a)", 17, 2}, {"[a](java&#XX;script:a)", 10, 2}, {"[a](java&TXX;script:a)", 10, 2}, {"[a](javascript\\XXa)", 15, 2},
		{"[a](\\XXavascript:a)", 5, 2}, {"[a](XXjavascript:a)", 4, 2}, {"[a](<XXjavascript:a>)", 5, 2}, {"[a](javascript%3XXa)", 16, 2}, {"[a](%6XXavascript:a)", 6, 2},
		{"![a](&#XX6;avascript:a)", 8, 2}, {"[a]: javascript&#XX;a\n\n[a]", 17, 2}, {"[a]: &#XX6;avascript:a\n\n![a]", 8, 2}, {"<javascript&#XX;a>", 13, 2}, {"<&#XX6;avascript:a>", 4, 2},
		{"[a](&amp;#XX6;avascript:a)", 10, 2}, {"[a](javascript&amp;cXXon;a)", 20, 2}, {"[a](&#38;#XX6;avascript:a)", 10, 2}, {"![a](&amp;#xXX;avascript:a)", 12, 2}, {"[a]: &amp;#XX6;avascript:a\n\n[a]", 11, 2},
		{"[a](java&amp;TXX;script:a)", 14, 2}, {"[a](&amp;amp;#XX6;avascript:a)", 14, 2},
		{"[a](dat&#XX;:text/html,x)", 9, 2}, {"[a](data:image/XXg;x)", 15, 2}, {"[a](data:image/svgXXml;x)", 18, 2}, {"![a](data:imageXXpng;x)", 15, 2}, {"[a](fil&#xXX;:///x)", 10, 2},
		{"[a](vbscript&#XX;x)", 14, 2}, {"[a](&NewLine;javascriptXXa)", 23, 2}, {"[a](java\nscriptXXa)", 15, 2}, {"[a](<java scriptXXa>)", 16, 2},
	}
	oc := []string{all}
	if thorough {
		oc = []string{all, core, allX}
	}
	jobs = append(jobs, tmplJobs("H_c04_urls", obf, oc)...)
	// free prefixes before a concrete ':' (S(3)/S(4) over the whole byte range)
	np := 3
	if thorough {
		np = 4
	}
	for _, c := range constructs[:5] {
		for n := 1; n <= np; n++ {
			if n == np && c.pre != "[a](" && !thorough {
				continue
			}
			hole := ""
			for i := 0; i < n; i++ {
				hole += "X"
			}
			doc := c.pre + hole + "le:a" + c.post
			jobs = append(jobs, job("H_c04_urls", "cfg", core, "seed", doc, "pos", len(c.pre), "window", n))
		}
	}
	// generic inputs (any URL the parser can find in short free-form text)
	for n := 0; n <= 2; n++ {
		jobs = append(jobs, job("H_c04_urls", "cfg", all, "n", n))
	}
	jobs = append(jobs, job("H_c04_urls", "cfg", core, "n", 6, "alpha", "<>file:"))
	jobs = append(jobs, job("H_c04_urls", "cfg", core, "n", 7, "alpha", "[]()a:"), job("H_c04_urls", "cfg", gfm, "n", 5, "alpha", "w.a:/ h"))
	p.Jobs = jobs
	p.Bounds = map[string]interface{}{
		"T(url)":        fmt.Sprintf("%d constructs (inline destination bare and <...>, image source, reference definition used by a link and by an image, <...> autolink, bare text with GFM extended autolinks) x %d scheme skeletons %q, each with a %d-byte fully symbolic window slid over the scheme from one byte before it to one byte behind the colon (quick: a seeded third of the offsets plus the offsets at the colon and before the scheme; thorough: every offset, and 3-byte windows at every second offset)", len(constructs), len(schemes), schemes, w),
		"obfuscations":  fmt.Sprintf("%d templates with symbolic digits/letters inside numeric, hexadecimal and named character references, backslash escapes, percent escapes, leading bytes, embedded whitespace, data: media types x %v", len(obf), oc),
		"free prefixes": fmt.Sprintf("1..%d fully symbolic bytes followed by 'le:a' in the first 5 constructs", np),
		"generic":       "S(2) all extensions; S(6,{<,>,f,i,l,e,:}), S(7,{[,],(,),a,:}) core, S(5,{w,.,a,:,/,space,h}) GFM",
		"normaliser":    "harness-side, browser-like: decode numeric/hex/selected named references once, strip leading bytes <= 0x20, remove TAB/LF/CR, ASCII lower-case; then the scheme test of the property",
		"outside":       "wider windows; URLs made dangerous only by a browser quirk outside the WHATWG URL parser's scheme rules",
	}
	p.Rule = "every href and src value of every path is normalised symbolically and tested against the forbidden schemes"
	return p, nil
}

func init() { Plans["C04"] = planC04 }

// ---- C10 ----

func planC10(tier string, seed int64) (*Plan, error) {
	p := &Plan{MustReach: []string{"done", "xhtml-exact", "unsafe-equal", "unsafe-fragments"}}
	thorough := tier == "thorough"
	gfmPin := "tableattr,strike,linkify,tasklist"
	allPin := gfmPin + ",deflist,footnote,typographer"
	exts := []string{"core", gfmPin, "footnote", "deflist", "typographer", allPin}
	var jobs []interp.Job
	for i, e := range exts {
		po := ""
		if i == len(exts)-1 {
			po = "autoid,attr"
		}
		for n := 0; n <= 2; n++ {
			jobs = append(jobs, job("H_c10_options", "ext", e, "popts", po, "n", n))
		}
	}
	s3 := []string{}
	if thorough {
		s3 = []string{"core", allPin}
	}
	for _, e := range s3 {
		jobs = append(jobs, job("H_c10_options", "ext", e, "n", 3))
	}
	la := 3
	if thorough {
		la = 5
	}
	alphas := []string{"a\n *<>", "![]()\na", "-*_ \n", "<a>\n/b", "a|-:\n", "[^1]:\na", "- [x] \n", "a\n: ~"}
	for i, al := range alphas {
		e := exts[i%len(exts)]
		if i >= 4 {
			e = allPin
		}
		jobs = append(jobs, job("H_c10_options", "ext", e, "n", la+1, "alpha", al))
	}
	// void-element and raw-HTML templates
	voids := []tmpl{
		{"![a](XX)", 5, 2}, {"a  \nXX", 4, 2}, {"a\\\nXX", 3, 2}, {"a\nXX\nc", 2, 2}, {"***\nXX", 4, 2}, {"- [ ] XX\n- [x] b", 6, 2}, {"a[^1]\n\n[^1]: XX", 14, 2},
		{"| a | b |\n|:-|-:|\n| XX | d |", 20, 2}, {"<b>XX</b>", 3, 2}, {"<div>\nXX\n</div>", 6, 2}, {"<br/>XX<hr />", 5, 2}, {"[a](javascript:XX)", 15, 2}, {"![a](vbscript:XX)", 14, 2}, {"<javascript:XX>", 12, 2},
		{"[a](<XXb>)", 5, 2}, {"[a](<bXX>)", 6, 2}, {"![a](<XXb> \"t\")", 6, 2}, {"[a]: <bXX>\n\n[a]", 6, 2}, {"[a](&#32;XX)", 10, 2}, {"[a](b 'XX')", 7, 2},
		{"[a](javascript:a \"tXX\")", 19, 2}, {"![a](vbscript:b 'XX')", 17, 2}, {"[a]: file:x \"XX\"\n\n[a]", 13, 2}, {"[a](javascript:XX \"t\")", 15, 2}, {"[a](data:text/html,XX (t))", 19, 2},
		{"t\n: XX\n  b", 5, 2}, {"`a\nXX`", 3, 2}, {"![a\nXX](u)", 4, 2}, {"> a\nXX", 4, 2}, {"\"a\"\nXX--", 4, 2}, {"~~a\nXX~~", 4, 2}, {"<!-- XX -->", 5, 2}, {"<a href=\"XX\">", 9, 2},
	}
	for _, t := range voids {
		jobs = append(jobs, job("H_c10_options", "ext", allPin, "popts", "attr", "seed", t.Seed, "pos", t.Pos, "window", t.W))
	}
	docs, err := LoadCorpus()
	if err != nil {
		return nil, err
	}
	nwin := 60
	if thorough {
		nwin = 1500
	}
	for i, sl := range corpusSlice(docs, seed, 120, nwin) {
		e := []string{allPin, "core", gfmPin}[i%3]
		jobs = append(jobs, job("H_c10_options", "ext", e, "seed", sl.D.Markdown, "pos", sl.Pos, "window", 1))
	}
	p.Jobs = jobs
	p.Bounds = map[string]interface{}{
		"options":       "all 8 combinations of {XHTML, HardWraps, Unsafe} on every path (8 conversions of the same symbolic source), table alignment pinned to the align attribute, CJK off",
		"S(2)":          "every byte string of length 0..2 x extension sets " + fmt.Sprint(exts) + " (thorough: S(3) on core and all)",
		"S(L,alphabet)": fmt.Sprintf("length %d over each of %q", la+1, alphas),
		"templates":     fmt.Sprintf("%d void-element / raw-HTML / dangerous-URL / soft-break templates with a 2-byte symbolic window, all extensions + Attribute", len(voids)),
		"W(C,1)":        fmt.Sprintf("%d seeded (corpus document, offset) pairs with one symbolic byte", nwin),
		"oracles":       "XHTML (safe): output equals the HTML5 output with each void element's '>' replaced by ' />' (void elements found by the harness tokenizer); XHTML (unsafe): equal after deleting ' /' before '>'. HardWraps: equal after deleting <br> before newlines, and exactly one more <br> per soft-break Text node outside image alt text and code spans. Unsafe: equal when the tree has no RawHTML/HTMLBlock and no destination goldmark classifies as dangerous; otherwise equal before the first and after the last placeholder / emptied URL",
		"outside":       "the middle fragments of documents with several raw-HTML pieces are compared only through prefix and suffix",
	}
	p.Rule = "relations between the 8 outputs asserted on every path"
	return p, nil
}

func init() { Plans["C10"] = planC10 }

// ---- C15 ----

func planC15(tier string, seed int64) (*Plan, error) {
	p := &Plan{MustReach: []string{"done", "two-headings", "three-headings"}}
	thorough := tier == "thorough"
	core, gfm, all := cfg("core", "autoid", ""), cfg("gfm", "autoid", "xhtml"), cfg(allExt, "autoid", "")
	kinds := "asqlec2u"
	var jobs []interp.Job
	r := rand.New(rand.NewSource(seed))
	for i := 0; i < len(kinds); i++ {
		for j := 0; j < len(kinds); j++ {
			if !thorough && (r.Intn(6) != 0 || i == j) && !(i == j && i%3 == int(seed)%3) {
				continue
			}
			c := []string{core, gfm, all}[(i+j)%3]
			jobs = append(jobs, job("H_c15_ids", "cfg", c, "shape", string(kinds[i])+string(kinds[j]), "tn", 1))
		}
	}
	a9 := "aA-_1 \xc3\xa9!"
	for _, sh := range []string{"aaa", "asq", "sle", "c2u"} {
		jobs = append(jobs, job("H_c15_ids", "cfg", core, "shape", sh, "tn", 1, "alpha", a9))
	}
	// suffix collisions: 'a','a','a-1' and friends; the literal "heading" fallback
	for _, sh := range []string{"aaa", "asa", "qla"} {
		jobs = append(jobs, job("H_c15_ids", "cfg", core, "shape", sh, "tns", "113", "alpha", "a-1"))
		jobs = append(jobs, job("H_c15_ids", "cfg", core, "shape", sh, "tns", "311", "alpha", "a-1"))
	}
	jobs = append(jobs, job("H_c15_ids", "cfg", core, "shape", "aaa", "tns", "133", "alpha", "a-1"))
	jobs = append(jobs, job("H_c15_ids", "cfg", all, "shape", "aaaa", "tns", "1113", "alpha", "a-1"))
	// a literal suffix form in every position among repeats, suffix digits 1 and 2 ('a','a','a-2','a')
	for _, tns := range []string{"1131", "1311", "3111"} {
		jobs = append(jobs, job("H_c15_ids", "cfg", core, "shape", "aaaa", "tns", tns, "alpha", "a-12"))
	}
	jobs = append(jobs, job("H_c15_ids", "cfg", core, "shape", "aaaaa", "tns", "11311", "alpha", "a-23"))
	for _, l := range []string{",,heading", "heading,,", ",,heading-1", ",heading-1,", "Heading 1,,"} {
		jobs = append(jobs, job("H_c15_ids", "cfg", core, "shape", "asa", "tn", 1, "alpha", "!h?-1", "lits", l))
	}
	if thorough {
		jobs = append(jobs, job("H_c15_ids", "cfg", core, "shape", "aaaa", "tns", "1133", "alpha", "a-1"))
		jobs = append(jobs, job("H_c15_ids", "cfg", core, "shape", "asqe", "tn", 2, "alpha", "aA- "))
		jobs = append(jobs, job("H_c15_ids", "cfg", core, "shape", "aa", "tn", 2))
	}
	// two headings with 2-byte texts over an alphabet, every pair of kinds on the diagonal
	for i := 0; i < len(kinds); i += 2 {
		jobs = append(jobs, job("H_c15_ids", "cfg", core, "shape", string(kinds[i])+string(kinds[(i+3)%len(kinds)]), "tn", 2, "alpha", "aA-1 \xc3"))
	}
	// symbolic history document
	jobs = append(jobs, job("H_c15_ids", "cfg", core, "shape", "as", "tn", 1, "alpha", a9, "hn", 1), job("H_c15_ids", "cfg", core, "shape", "aa", "tns", "13", "alpha", "a-1", "hn", 2, "halpha", "a-1#\n"))
	// free-form documents
	for n := 0; n <= 2; n++ {
		jobs = append(jobs, job("H_c15_ids", "cfg", all, "n", n))
	}
	la := 5
	if thorough {
		la = 7
	}
	jobs = append(jobs, job("H_c15_ids", "cfg", core, "n", la, "alpha", "# a\n="), job("H_c15_ids", "cfg", core, "n", la, "alpha", "#a\n-1"))
	docs, err := LoadCorpus()
	if err != nil {
		return nil, err
	}
	var hd []Doc
	for _, d := range docs {
		if hasAny(d.Markdown, "#=") && !hasAny(d.Markdown, "{") {
			hd = append(hd, d)
		}
	}
	nwin := 60
	if thorough {
		nwin = 1500
	}
	jobs = append(jobs, windowJobs("H_c15_ids", hd, seed, nwin, 1, []string{core, all})...)
	p.Jobs = jobs
	p.Bounds = map[string]interface{}{
		"T(headings)": "2 headings of every kind pair from {ATX, Setext =, Setext -, ATX in quote, ATX in list item, Setext in quote, ATX with closing #, level-2 ATX} (quick: a seeded sixth of the pairs and a third of the diagonal) with 1-byte fully symbolic texts; 3 headings with 1-byte texts over {a,A,-,_,1,space,C3,A9,!}; 2 headings with 2-byte texts over {a,A,-,1,space,C3}",
		"collisions":  "texts of lengths (1,1,3), (3,1,1), (1,3,3), (1,1,1,3) over {a,-,1} (the 'a','a','a-1' family), (1,1,3,1), (1,3,1,1), (3,1,1,1) over {a,-,1,2} and (1,1,3,1,1) over {a,-,2,3}, two 1-byte texts over {!,h,?,-,1} next to the literal texts 'heading', 'heading-1', 'Heading 1' in every position (the fallback id)",
		"history":     "every case is converted, then a state-rich document with the same heading texts and suffix-like headings, then converted again on the same instance: outputs must be equal; two cases with a symbolic history heading of 1 byte (256 values) and 2 bytes over {a,-,1,#,LF}",
		"free-form":   fmt.Sprintf("S(2) all extensions; S(%d,{#,space,a,LF,=}) and S(%d,{#,a,LF,-,1}); %d seeded corpus windows over documents with headings", la, la, nwin),
		"outside":     "explicit {#id} attribute syntax (the property excludes it); more than 4 headings",
	}
	p.Rule = "ids are read from the tokenised output; distinctness is asserted pairwise over all inputs of a path"
	return p, nil
}

func init() { Plans["C15"] = planC15 }

// ---- C17 ----

func planC17(tier string, seed int64) (*Plan, error) {
	p := &Plan{MustReach: []string{"done", "table", "header-counted"}}
	thorough := tier == "thorough"
	tb, tbX, gfm, all := cfg("table", "", ""), cfg("table", "", "xhtml"), cfg("gfm", "", ""), cfg(allExt, "attr", "xhtml")
	var jobs []interp.Job
	add := func(c, lens, alpha string, kv ...interface{}) {
		jobs = append(jobs, job("H_c17_tables", append([]interface{}{"cfg", c, "rows", 1, "lens", lens, "alpha", alpha}, kv...)...))
	}
	a5, a3, a3c, esc := "|-: a", "|-a", "|-:", "|a\\`"
	add(tb, "3,3", a5)
	add(tbX, "2,3", a5)
	add(tb, "3,2", a5)
	add(gfm, "1,1", a5)
	add(tb, "4,4", a3)
	add(tbX, "3,4", a3c)
	add(tb, "5,3", a3)
	add(tb, "3,3,3", a3)
	add(tbX, "3,3,2,2", a3)
	add(gfm, "2,3,4", a3)
	// escaped pipes and code spans in header and body, concrete delimiter rows of 1-3 columns
	add(tb, "3,0,4", esc, "delim", "-|-")
	add(tbX, "4,0,3", esc, "delim", "|:-|-:|")
	add(tb, "4,0,2", esc, "delim", "-")
	add(all, "3,0,3,3", "|a\\", "delim", ":-:|-|-")
	// in containers and after a paragraph line
	add(tb, "3,3,2", a3, "container", "quote")
	add(tbX, "3,3,2", a3, "container", "list")
	add(gfm, "2,3,3,2", a3)
	// histories: a table with its delimiter row in the same byte range converted first on the same instance
	add(tb, "3,3", a5, "hist", "xx|y\n-|-\n"+tokSep+"a|b\n-|-\n1|2\n")
	add(tbX, "3,3,2", a3c, "hist", "xxxx\n:-\n"+tokSep+"a|b\n:-:\nc\n")
	add(tb, "3,0,3", "|a-", "delim", ":-|-:", "hist", "xx|y\n-|-\n"+tokSep+"a|b\n--|--\n1|2\n")
	if thorough {
		add(tb, "4,4", a5)
		add(tb, "3,3,3", a5)
		add(tb, "5,5", a3)
		add(tb, "4,4,4", a3)
		add(tb, "5,0,5", esc, "delim", "-|-")
		add(tb, "3,0,3,3", "|a\\`", "delim", "|-|-|")
		add(tb, "4,3,3", a3, "container", "quote")
		add(tb, "4,3,3", a3, "container", "list")
	}
	// free-form and corpus
	for n := 0; n <= 2; n++ {
		jobs = append(jobs, job("H_c17_tables", "cfg", all, "n", n))
	}
	la := 6
	if thorough {
		la = 8
	}
	jobs = append(jobs, job("H_c17_tables", "cfg", tb, "n", la, "alpha", "a|-\n"), job("H_c17_tables", "cfg", gfm, "n", la, "alpha", "|-:\n "))
	docs, err := LoadTxt(RepoDir + "/extension/_test/table.txt")
	if err != nil {
		return nil, err
	}
	nwin := 120
	if thorough {
		nwin = 0 // every position
	}
	jobs = append(jobs, windowJobs("H_c17_tables", docs, seed, nwin, 1, []string{tb, tbX, all})...)
	// (two-byte windows were dropped from the thorough tier: two free bytes can spell a list marker or another
	// container in front of a row, and the oracle's way of finding the header and delimiter lines does not model that)
	p.Jobs = jobs
	p.Bounds = map[string]interface{}{
		"T(table)":  "documents of 2-4 lines (header, delimiter, body rows; optionally a paragraph line first; optionally inside '> ' or '- '), every line a symbolic string of the listed length over the listed alphabet: (3,3),(2,3),(3,2),(1,1) over {|,-,:,space,a}; (4,4),(5,3),(3,3,3),(3,3,2,2),(2,3,4),(2,3,3,2) over {|,-,a}; (3,4) over {|,-,:}; header/body of 3-4 bytes over {|,a,\\,`} with concrete delimiter rows '-|-', '|:-|-:|', '-', ':-:|-|-' (escaped pipes, pipes in code spans); (3,3,2) over {|,-,a} in a quote and in a list item; three of the cases again after two concrete documents (a table whose delimiter row occupies the same byte range) were converted on the same instance",
		"free-form": fmt.Sprintf("S(2) all extensions; S(%d,{a,|,-,LF}) and S(%d,{|,-,:,LF,space})", la, la),
		"W(C_tbl,1)": fmt.Sprintf("%d seeded (document of extension/_test/table.txt, offset) pairs with one symbolic byte (thorough: every offset); window bytes range over all values except '>', VT and FF (they move the lines the oracle reads as header and delimiter row)", nwin),
		"oracle":    "tree: one TableHeader first, every row has len(Alignments) cells, each cell carries its column's alignment; header and delimiter row are split independently by the harness (rows without backslash/backtick) and must have equal cell counts, delimiter colons must match the alignments; output: one thead with one row, every tr has as many th/td as columns, each cell's align/style attribute is its column's",
		"outside":   "longer rows; a final empty cell directly before the closing pipe is read as goldmark reads it (not counted)",
	}
	p.Rule = "every Table node and every rendered table of every path is checked"
	return p, nil
}

func init() { Plans["C17"] = planC17 }

// ---- C16 ----

func planC16(tier string, seed int64) (*Plan, error) {
	p := &Plan{MustReach: []string{"done", "items", "two-items", "unreferenced"}}
	thorough := tier == "thorough"
	fn, fnX, all := cfg("gfm,footnote", "", ""), cfg("gfm,footnote", "", "xhtml"), cfg(allExt, "autoid,attr", "")
	places := "peltqhfiuTSxmc"
	var jobs []interp.Job
	add := func(c, refs, defs string, ln int, alpha string) {
		jobs = append(jobs, job("H_c16_footnotes", "cfg", c, "refs", refs, "defs", defs, "ln", ln, "alpha", alpha))
	}
	// configured id prefixes (constant prefix; prefix function)
	fnP, fnF := cfg("gfm,footnoteopts", "", ""), cfg("gfm,footnotefn", "", "xhtml")
	addP := func(c, pfx, refs, defs string) {
		jobs = append(jobs, job("H_c16_footnotes", "cfg", c, "idprefix", pfx, "refs", refs, "defs", defs, "ln", 1, "alpha", "ab"))
	}
	for i, rs := range []string{"p", "pp", "pe", "ti", "fu", "hT", "ppp", "lq"} {
		addP(fnP, "p-", rs, []string{"t", "tt", "tq"}[i%3])
		addP(fnF, "f0-", rs, []string{"tt", "t", "tl"}[i%3])
	}
	for i := 0; i < len(places); i++ {
		add(fn, string(places[i]), "t", 1, "ab1")
		add(fnX, string(places[i]), "tq", 1, "ab")
		for j := 0; j < len(places); j++ {
			add([]string{fn, fnX, all}[(i+j)%3], string(places[i])+string(places[j]), "tt", 1, "ab1")
		}
	}
	for _, d := range []string{"t", "q", "l", "tl", "qt", "ttt"} {
		add(fn, "pp", d, 1, "ab")
		add(fn, "", d, 1, "ab")
	}
	add(fn, "pp", "tt", 2, "ab")
	add(fn, "pe", "tt", 2, "a^")
	add(fn, "ppp", "tt", 1, "ab")
	add(fnX, "pef", "ttt", 1, "abc")
	add(all, "plth", "tt", 1, "ab")
	add(fn, "pppp", "t", 1, "ab")
	if thorough {
		for i := 0; i < len(places); i++ {
			for j := 0; j < len(places); j++ {
				for k := j; k < len(places); k += 2 {
					add(fn, string(places[i])+string(places[j])+string(places[k]), "ttt", 1, "abc")
				}
			}
		}
		add(fn, "pppp", "ttt", 1, "abc")
		add(fn, "ppp", "ttt", 2, "ab")
	}
	// many references of one footnote (reference ids carry a per-footnote counter: fnref:1, fnref1:1, ... fnref10:1)
	nrefs := 13
	if thorough {
		nrefs = 40
	}
	for n := 0; n <= nrefs; n++ {
		jobs = append(jobs, job("H_c16_footnotes", "cfg", []string{fn, fnX}[n%2], "rep", "a[^1] ", "repn", n, "seed", "b[^2]\n\n[^1]: f\n\n[^2]: g\n", "pos", 3, "window", 1))
	}
	// free-form: token sequences and short inputs
	toks := []string{"[^a]", "[^b]", "[^a]: ", "[^b]: ", "\n\n", "x", "![", "](u)"}
	nt := 5
	if thorough {
		nt = 6
	}
	jobs = append(jobs, job("H_c16_footnotes", "cfg", fn, "n", nt, "tokens", joinTok(toks)))
	for n := 0; n <= 2; n++ {
		jobs = append(jobs, job("H_c16_footnotes", "cfg", all, "n", n))
	}
	docs, err := LoadTxt(RepoDir + "/extension/_test/footnote.txt")
	if err != nil {
		return nil, err
	}
	nwin := 100
	if thorough {
		nwin = 0
	}
	jobs = append(jobs, windowJobs("H_c16_footnotes", docs, seed, nwin, 1, []string{fn, all})...)
	p.Jobs = jobs
	p.Bounds = map[string]interface{}{
		"T(fn)":     "1-2 references (thorough: 3) in every combination of placements {paragraph, emphasis, link text, image alt, table body cell, surplus table cell, header cell, cell of a short row, strikethrough, code span, block quote, heading, body of definition 0, body of a never-referenced definition} x 1-3 definitions at top level / in a quote / in a list item; reference and definition labels are symbolic 1-byte strings over {a,b,1} (2-byte over {a,b} and {a,^} for some), so which reference hits which definition, duplicates and misses are decided by the solver; up to 4 references of one definition",
		"free-form": fmt.Sprintf("every sequence of %d tokens from %q; S(2) all extensions", nt, toks),
		"many refs": fmt.Sprintf("one footnote referenced n times for every n in 0..%d next to a second footnote whose label byte is symbolic", nrefs),
		"id prefix": "16 placement combinations under WithFootnoteIDPrefix (with link/back-link titles, classes and back-link HTML templates) and WithFootnoteIDPrefixFunction; the prefix is stripped from ids and fragment links before the same oracle is applied",
		"W(C_fn,1)": fmt.Sprintf("%d seeded (document of extension/_test/footnote.txt, offset) pairs with one symbolic byte (thorough: every offset)", nwin),
		"oracle":    "from the tokenised output: li ids are fn:1..fn:n in order; each sup id fnref[K]:j contains a link to #fn:j showing j, and item j exists; every back-link targets an existing sup id of its own item, no two the same, every sup id is targeted; all generated ids distinct; a definition whose label no reference spells leaves no trace of its body",
		"outside":   "more references/definitions; labels longer than 2 bytes",
	}
	p.Rule = "cross-links are read from the tokenised output of every path"
	return p, nil
}

func init() { Plans["C16"] = planC16 }

// ---- C20 ----

func planC20(tier string, seed int64) (*Plan, error) {
	p := &Plan{MustReach: []string{"done"}}
	thorough := tier == "thorough"
	var jobs []interp.Job
	fact := func(n int) int {
		f := 1
		for i := 2; i <= n; i++ {
			f *= i
		}
		return f
	}
	each := func(entry string, n int, kv ...interface{}) {
		for o := 0; o < fact(n); o++ {
			for route := 0; route < 3; route++ {
				if !thorough && route != (o+int(seed))%3 {
					continue
				}
				jobs = append(jobs, job(entry, append([]interface{}{"order", o, "route", route}, kv...)...))
			}
		}
	}
	each("H_c20_block", 3, "nt", 2, "nf", 1)
	each("H_c20_block", 2, "nt", 1, "nf", 1)
	each("H_c20_block", 2, "nt", 2, "nf", 0)
	// the probes' line behind a paragraph line (top level and inside a block quote): only parsers that may interrupt a paragraph are tried
	each("H_c20_block", 2, "nt", 1, "nf", 1, "doc", 1)
	each("H_c20_block", 2, "nt", 0, "nf", 2, "doc", 1)
	each("H_c20_block", 2, "nt", 0, "nf", 2, "doc", 2)
	each("H_c20_block", 2, "nt", 1, "nf", 1, "doc", 2)
	each("H_c20_inline", 3, "n", 3)
	each("H_c20_render", 3, "n", 3)
	each("H_c20_transformers", 4, "n", 2)
	// other trigger bytes: DEL, UTF-8 continuation / lead bytes, 0xFF, a control byte (the dispatch tables are indexed by the raw byte)
	// (inline triggers must be punctuation or a space by the documented contract of InlineParser.Trigger)
	itrigs := []int{'$', '=', '^', '{', '|', ';'}
	for i, tb := range []int{0x7f, 0x80, 0xe2, 0xff, 0x01, '$'} {
		jobs = append(jobs, job("H_c20_block", "nt", 1, "nf", 1, "order", (i+int(seed))%2, "route", i%3, "trig", tb, "doc", i%3))
		jobs = append(jobs, job("H_c20_inline", "n", 2, "order", i%2, "route", (i+1)%3, "itrig", itrigs[i]))
	}
	// priorities over the whole int range (negative values, differences beyond MaxInt)
	jobs = append(jobs, job("H_c20_inline", "n", 3, "order", int(seed)%6, "route", 0, "wide", 1), job("H_c20_render", "n", 3, "order", int(seed+1)%6, "route", 1, "wide", 1),
		job("H_c20_transformers", "n", 2, "order", int(seed+2)%24, "route", 2, "wide", 1), job("H_c20_block", "nt", 2, "nf", 0, "order", int(seed)%2, "route", 0, "wide", 1))
	if thorough {
		each("H_c20_block", 4, "nt", 2, "nf", 2)
		each("H_c20_inline", 4, "n", 4)
		each("H_c20_render", 4, "n", 4)
	} else {
		jobs = append(jobs, job("H_c20_inline", "n", 4, "order", int(seed)%24, "route", 2), job("H_c20_render", "n", 4, "order", int(seed+7)%24, "route", 1))
		jobs = append(jobs, job("H_c20_transformers", "n", 3, "order", int(seed*13)%720, "route", 2))
	}
	p.Jobs = jobs
	p.Bounds = map[string]interface{}{
		"priorities":   "symbolic integers in [1,1999] (and, in one job per component type, any 64-bit integer), pairwise distinct and different from 1000 (built-in paragraph parser / HTML renderer): every relative order among the probes and against every built-in priority is covered by solver forks in the real sort.Slice comparator",
		"triggers":     "block probes on '@' and inline probes on '%'; additionally one job per block trigger byte 0x7F, 0x80, 0xE2, 0xFF, 0x01, '$' and per inline trigger $ = ^ { | ; (inline triggers must be punctuation or space by the documented contract)",
		"components":   "block parsers: 2 on trigger '@' + 1 trigger-less, 1+1, 2+0 (thorough 2+2); inline parsers: 3 on trigger '%' (4 in one order; thorough all); node renderers: 3 overriding ThematicBreak (4 in one order); 2 paragraph + 2 AST transformers (3+3 in one order); which probe accepts is a solver-enumerated choice including 'none'; block probes are exercised on a line that opens the document, on a line behind a paragraph line, and on such a line inside a block quote; paragraph transformers are observed relative to the built-in link-reference transformer at 100 (they see one line less once it has run)",
		"registration": "every permutation of the registration order x route {options of New, one Extender calling AddOptions, alternating} (quick: one seeded route per permutation; thorough: all three)",
		"missing kind": "a node of a kind created after every kind known to the renderer, with a paragraph below it, is rendered: no error, children rendered",
		"outside":      "equal priorities; more probes; probes sharing a trigger with a built-in parser",
	}
	p.Rule = "invocation logs of the probes compared with the order the property states, for all priority assignments of a path at once"
	return p, nil
}

func init() { Plans["C20"] = planC20 }

// ---- C02 ----

// document trees (notation in harness/h/c02.go); meaning fixed by construction
var c02Trees = []string{
	"P[t2]",
	"P[t1 p t1]", "P[p p]", "P[t1 x t1]", "P[x p]",
	"P[t1 p b t1]", "P[t1 b t1 n t1]", "P[t1 n p t1 b x]",
	"P[t1 w e[t1] w t1]", "P[s[t2] w t1]", "P[e[s[t1]]]", "P[e[t1 n t1]]", "P[t1 w e[t1 w s[t1] w t1]]",
	"P[c2]", "P[t1 w c1 w e[c1]]",
	"P[l[t2]]", "P[t1 w l[t1 w e[t1]] w t1]", "P[i[t2]]", "P[i[t1 w e[t1]]]", "P[l[i[t1]]]", "P[l[t1] w l[t2]]", "P[l[p t1]]",
	"P[a]", "P[t1 w a w r t1]",
	"H1[t2]", "H2[t1 w e[t1]]", "H3[t1 p]", "H6[c1]", "H1[t1] P[t1]", "P[t1] H2[t1]",
	"R", "P[t1] R P[t1]",
	"I1", "I2", "P[t1] I1 P[t1]", "F1", "F2 P[t1]", "P[t1] F1",
	"M P[t1]",
	"Q{P[t1]}", "Q{P[t1] P[t1]}", "Q{H1[t1] F1}", "Q{Q{P[t1]}}", "Q{P[t1 n t1]}", "Q{I1}", "Q{U{L{P[t1]} L{P[t1]}}}",
	"U{L{P[t1]}}", "U{L{P[t1]} L{P[t1]}}", "V{L{P[t1]} L{P[t1]}}", "V{L{P[t1] P[t1]}}", "O{L{P[t1]} L{P[t1]}}", "W{L{P[t1]} L{P[t1] P[t1]}}",
	"U{L{P[t1] U{L{P[t1]}}}}", "U{L{P[t1] O{L{P[t1]} L{P[t1]}}} L{P[t1]}}", "V{L{P[t1] F1} L{P[t1] I1}}", "V{L{P[t1] Q{P[t1]}}}", "O{L{P[t1 n t1]}}", "U{L{F1}}", "V{L{H2[t1] P[t1]}}",
	"U{L{P[t1]}} P[t1]", "P[t1] U{L{P[t1]}} R", "U{L{P[t1]}} O{L{P[t1]}}", "Q{P[t1]} U{L{P[e[t1]]}} H1[t1]",
	"U{L{} L{P[t1]}}", "V{L{} L{P[t1] P[t1]}}", "V{L{P[t1]} L{} L{P[t1] F1}}", "W{L{} L{P[t1] U{L{P[t1]}}}}", "O{L{P[t1]} L{}}", "Q{V{L{} L{P[t1] I1}}}", "V{L{} L{} L{P[t1] P[t1]}}",
	"V{L{P[l[t1]] P[i[t1]]}}", "Q{P[l[t2] b t1]}", "U{L{P[t1 b t1]}}", "O{L{P[c1 w p]}}",
}

// c02Generated enumerates further trees from small grammars: every pair/triple of leaf blocks at top
// level, every leaf block inside every container, two-level container nestings, and inline sequences.
func c02Generated(full bool) []string {
	leaves := []string{"P[t1]", "H2[t1]", "R", "I1", "F1", "M", "P[t1 n t1]", "H1[t1 w e[t1]]"}
	var out []string
	okPair := func(a, b string) bool {
		// an HTML block of type 6 ends at a blank line: fine. Two adjacent indented code blocks would merge.
		return !(a == "I1" && b == "I1")
	}
	for _, a := range leaves {
		for _, b := range leaves {
			if okPair(a, b) {
				out = append(out, a+" "+b)
			}
		}
	}
	inner := []string{"P[t1]", "H2[t1]", "I1", "F1", "P[t1] P[t1]", "P[t1] F1", "F1 P[t1]", "H1[t1] P[t1]", "P[t1] I1", "M", "P[t1] H2[t1]", "P[t1] H1[t1]", "H2[t1] H1[t1]", "P[t1] R"}
	for _, in := range inner {
		out = append(out, "Q{"+in+"}", "V{L{"+in+"}}", "W{L{"+in+"} L{P[t1]}}", "V{L{P[t1]} L{"+in+"}}")
		out = append(out, "Q{"+in+"} P[t1]", "P[t1] Q{"+in+"}", "V{L{"+in+"}} P[t1]", "H1[t1] W{L{"+in+"}}")
	}
	tightInner := []string{"P[t1]", "P[t1] U{L{P[t1]}}", "P[t1] O{L{P[t1]}}", "F1", "P[t1] F1", "P[t1] Q{P[t1]}", "P[t1 n t1]", "H2[t1]"}
	for _, in := range tightInner {
		out = append(out, "U{L{"+in+"}}", "O{L{"+in+"} L{P[t1]}}", "U{L{P[t1]} L{"+in+"}}", "Q{U{L{"+in+"}}}", "U{L{"+in+"}} P[t1]")
	}
	conts := []string{"Q{%}", "V{L{%}}", "W{L{%}}", "U{L{%}}"}
	for _, c1 := range conts {
		for _, c2 := range conts {
			for _, in := range []string{"P[t1]", "F1", "P[t1] P[t1]"} {
				if (c1 == "U{L{%}}" || c2 == "U{L{%}}") && in == "P[t1] P[t1]" {
					continue // two paragraphs make an item loose
				}
				if c1 == "U{L{%}}" && c2 != "U{L{%}}" && c2 != "Q{%}" {
					continue // a loose list inside a tight item is fine, but keep tight outer + loose inner out: first block must be a paragraph for <li> layout
				}
				t := ""
				for i := 0; i < len(c1); i++ {
					if c1[i] == '%' {
						for j := 0; j < len(c2); j++ {
							if c2[j] == '%' {
								t += in
							} else {
								t += string(c2[j])
							}
						}
					} else {
						t += string(c1[i])
					}
				}
				out = append(out, t)
			}
		}
	}
	atoms := []string{"t1", "p", "x", "w e[t1] w", "w s[t1] w", "c1", "l[t1]", "i[t1]", "w a w", "r", "b t1", "n t1", "w e[s[t1]] w", "l[e[t1]]", "w e[l[t1]] w", "l[c1]", "i[l[t1]]", "p p", "x x"}
	for _, a := range atoms {
		for _, b := range atoms {
			if !full && (len(a)+len(b))%3 != 0 {
				continue
			}
			if (a == "l[t1]" || a == "l[c1]" || a == "l[e[t1]]") && (b[0] == 'l' || b[0] == 'i') {
				continue // adjacent links: a shortcut reference followed by '[' would read as a full reference
			}
			if a[0] == 'i' && (b[0] == 'l' || b[0] == 'i') {
				continue
			}
			if a == "c1" && b == "c1" {
				continue // adjacent code spans: their backtick strings would join into one of length 2 (one span, 6.1)
			}
			if a[len(a)-1] == 'w' && (b == "b t1" || b == "n t1") {
				continue // a space in front of a line break is stripped: not the same structure
			}
			out = append(out, "P[t1 "+a+" "+b+" t1]")
			if a != "b t1" && a != "n t1" && b != "b t1" && b != "n t1" && b != "r" && a != "r" {
				out = append(out, "H1[t1 "+a+" "+b+" t1]")
			}
		}
	}
	return out
}

func planC02(tier string, seed int64) (*Plan, error) {
	p := &Plan{MustReach: []string{"done"}}
	thorough := tier == "thorough"
	var jobs []interp.Job
	r := rand.New(rand.NewSource(seed))
	c02Trees := append(append([]string(nil), c02Trees...), c02Generated(thorough)...)
	type choice struct{ ind, fence, link, hb, setext, atxclose, tabs int }
	var choices []choice
	for ind := 0; ind <= 3; ind++ {
		for link := 0; link <= 3; link++ {
			choices = append(choices, choice{ind, 3 + (ind+link)%3, link, (ind + link) % 2, (ind + link/2) % 2, link % 2, (ind / 2) % 2})
		}
	}
	for ti, t := range c02Trees {
		// every tree under the default spelling and under a seeded subset of the enumerated choices (thorough: all 16 + flips)
		cs := []choice{{0, 3, 0, 0, 0, 0, 0}}
		if hasAny(t, "H") {
			cs = append(cs, choice{0, 3, 0, 0, 1, 0, 0}) // the Setext twin of the default spelling
		}
		if thorough {
			cs = append(cs, choices...)
			cs = append(cs, choice{1, 4, 1, 1, 1, 1, 1}, choice{3, 5, 2, 0, 1, 0, 1})
		} else {
			for k := 0; k < 2; k++ {
				cs = append(cs, choices[(ti*5+int(seed)+k*7)%len(choices)])
			}
			cs = append(cs, choices[r.Intn(len(choices))])
		}
		for _, c := range cs {
			jobs = append(jobs, job("H_c02_tree", "tree", t, "ind", c.ind, "fence", c.fence, "link", c.link, "hb", c.hb, "setext", c.setext, "atxclose", c.atxclose, "tabs", c.tabs))
		}
	}
	// indentation written with tabs behind container markers: every whitespace run of length <= 3 (thorough 4) over {space, TAB}
	wsMax := 3
	if thorough {
		wsMax = 4
	}
	var wss []string
	var genWS func(cur string)
	genWS = func(cur string) {
		wss = append(wss, cur)
		if len(cur) < wsMax {
			genWS(cur + " ")
			genWS(cur + "\t")
		}
	}
	genWS("")
	ntabs := 0
	for _, mk := range []string{">", "-", ">>", ">-", "->", ">>>", ">>-", "-->"} {
		for _, ws := range wss {
			jobs = append(jobs, job("H_c02_tabs", "markers", mk, "ws", ws))
			ntabs++
		}
	}
	// link reference definition boundary shapes (CommonMark 4.7): see harness/h/c02ref.go
	nref := 0
	for ws1 := 0; ws1 < 4; ws1++ {
		for angle := 0; angle < 2; angle++ {
			for tr := 0; tr < 3; tr++ {
				jobs = append(jobs, job("H_c02_refdef", "ws1", ws1, "angle", angle, "sep", 0, "tr", tr))
				nref++
				if tr == 0 {
					for cont := 1; cont <= 5; cont++ {
						jobs = append(jobs, job("H_c02_refdef", "ws1", ws1, "angle", angle, "sep", 0, "tr", 0, "cont", cont))
						jobs = append(jobs, job("H_c02_refdef", "ws1", ws1, "angle", angle, "sep", 1+cont%3, "q", cont%3, "tl", 1+cont%2, "tr", 0, "cont", cont))
						nref += 2
					}
				}
				for sep := 1; sep < 4; sep++ {
					for q := 0; q < 3; q++ {
						for tl := 1; tl <= 2; tl++ {
							jobs = append(jobs, job("H_c02_refdef", "ws1", ws1, "angle", angle, "sep", sep, "q", q, "tl", tl, "tr", tr))
							nref++
						}
					}
				}
			}
		}
	}
	// emphasis against a reference implementation of the delimiter-run algorithm (6.2): see harness/h/c02emph.go
	ne := 4
	if thorough {
		ne = 6
	}
	for n := 1; n <= ne; n++ {
		jobs = append(jobs, job("H_c02_emph", "n", n))
	}
	jobs = append(jobs, job("H_c02_emph", "n", 7, "alpha", "*a"), job("H_c02_emph", "n", ne+1, "alpha", "*_a "), job("H_c02_emph", "n", ne+2, "alpha", "_a."))
	if thorough {
		jobs = append(jobs, job("H_c02_emph", "n", 10, "alpha", "*a"), job("H_c02_emph", "n", 8, "alpha", "*_a"))
	}
	// code spans against a reference written from 6.1
	nc := 7
	if thorough {
		nc = 10
	}
	for n := 2; n <= nc; n++ {
		jobs = append(jobs, job("H_c02_codespan", "n", n))
	}
	// which list items may interrupt a paragraph (5.2/5.3)
	nint := 0
	for ind := 0; ind <= 3; ind++ {
		for _, z := range []int{0, 1, 2, 4, 8} {
			for val := 1; val <= 2; val++ {
				for empty := 0; empty <= 1; empty++ {
					if !thorough && (ind+z+val+empty)%2 == 1 && !(ind == 0 && empty == 0) {
						continue
					}
					jobs = append(jobs, job("H_c02_interrupt", "kind", 0, "zeros", z, "val", val, "empty", empty, "ind", ind))
					nint++
				}
			}
		}
		jobs = append(jobs, job("H_c02_interrupt", "kind", 1, "empty", 0, "ind", ind), job("H_c02_interrupt", "kind", 1, "empty", 1, "ind", ind))
		nint += 2
	}
	// HTML block start/end conditions (CommonMark 4.6): see harness/h/c02ref.go
	nhtml := 0
	for ind := 0; ind <= 3; ind++ {
		for t1 := 0; t1 < 4; t1++ {
			for t2 := 0; t2 < 4; t2++ {
				if !thorough && ind > 0 && (t1+t2+ind)%4 != 0 {
					continue
				}
				jobs = append(jobs, job("H_c02_html", "kind", 1, "t1", t1, "t2", t2, "ind", ind, "upper", (t1+t2)%2, "oneline", (t1+ind)%2))
				nhtml++
			}
		}
		for kind := 2; kind <= 5; kind++ {
			for ol := 0; ol < 2; ol++ {
				jobs = append(jobs, job("H_c02_html", "kind", kind, "ind", ind, "oneline", ol))
				nhtml++
			}
		}
		for t1 := 0; t1 < 12; t1++ {
			if !thorough && (t1+ind)%4 != 0 {
				continue
			}
			jobs = append(jobs, job("H_c02_html", "kind", 6, "t1", t1, "ind", ind, "upper", t1%2))
			jobs = append(jobs, job("H_c02_html", "kind", 7, "t1", t1, "ind", ind, "upper", (t1+1)%2))
			nhtml += 2
		}
		jobs = append(jobs, job("H_c02_html", "kind", 8, "ind", ind))
		nhtml++
	}
	spec, err := LoadSpec()
	if err != nil {
		return nil, err
	}
	closedEnd := func(h string) bool {
		for _, suf := range []string{"</p>\n", "</h1>\n", "</h2>\n", "</h3>\n", "</h4>\n", "</h5>\n", "</h6>\n", "<hr />\n", "</blockquote>\n", "</ul>\n", "</ol>\n"} {
			if len(h) >= len(suf) && h[len(h)-len(suf):] == suf {
				return true
			}
		}
		return false
	}
	nspec, nskip := 0, 0
	for i, d := range spec {
		if d.Markdown == "" {
			continue
		}
		_ = i
		rws := []int{0, 1, 3, 4, 5}
		if closedEnd(d.HTML) {
			rws = append(rws, 2, 6, 7, 8)
		} else {
			nskip++
		}
		for _, rw := range rws {
			jobs = append(jobs, job("H_c02_spec", "md", d.Markdown, "html", d.HTML, "rw", rw, "name", d.Name))
		}
		nspec++
	}
	p.Jobs = jobs
	p.Bounds = map[string]interface{}{
		"trees":      fmt.Sprintf("%d document trees: a hand-written list plus generated families (every ordered pair of leaf blocks; every leaf block and block pair inside a quote, a loose/tight bullet item, an ordered item; two-level container nestings; paragraphs and headings holding every ordered pair of inline atoms - quick: a third of the pairs) (depth <= 3; paragraphs, ATX/Setext headings, thematic breaks, indented and fenced code, HTML block, block quotes, tight/loose bullet and ordered lists and their nestings; text, escaped punctuation, numeric references, emphasis/strong, code spans, links, images, autolinks, raw HTML, hard and soft breaks): %q", len(c02Trees), c02Trees),
		"symbolic":   "per tree, solved for at once: bullet marker in {-,+,*}, ordered delimiter in {.,)}, fence character in {`,~}, emphasis delimiter in {*,_}, thematic-break character in {*,-,_}, title quote in {\",'}, every text letter in a..z, every escaped punctuation byte over all 32 ASCII punctuation characters, numeric references &#33;..&#99;, a case flip for the first two letters of every full reference label",
		"enumerated": "leading indentation 0-3, fence length 3-5, link style inline/full/collapsed/shortcut, hard break as backslash or two spaces, Setext vs ATX, ATX closing sequence, tab vs spaces for indented code (quick: the default spelling + 3 of 16 combinations per tree; thorough: 19 combinations)",
		"tabs":       fmt.Sprintf("%d cases: chains of 1-3 container markers (block quote, bullet item) followed by every run of <= %d spaces/tabs and two symbolic letters; expected structure (paragraph, or indented code with its leading columns) from column arithmetic in the harness", ntabs, wsMax),
		"refdef":     fmt.Sprintf("%d link reference definition boundary shapes (4.7): whitespace between colon and destination {space, line ending, line ending + 2 spaces, none} x destination {bare, <...>} x title {none; \" ' ( delimited, on one or two lines, separated by a space / a line ending / a line ending and a space} x trailer {nothing, a space, more text}, optionally paragraph text directly behind the definition (indented 0, 1, 3, 4 spaces or a tab), followed by a shortcut reference; label, destination, title and trailer letters symbolic; expected: definition with title / definition without title plus a paragraph / no definition, from 4.7", nref),
		"emphasis":   fmt.Sprintf("one-line paragraphs of length 1..%d with every byte symbolic over {*, _, space, '.', ',', '!', a-z} (no leading/trailing space, some non-delimiter character, not starting with a bullet marker), and of length 7 over {*,a}, %d over {*,_,a,space}, %d over {_,a,.} (thorough adds 10 over {*,a}, 8 over {*,_,a}); expected HTML from a reference implementation, in the harness, of the specification's delimiter-run classification and 'process emphasis' procedure", ne, ne+1, ne+2),
		"code spans": fmt.Sprintf("one paragraph of length 2..%d with every byte symbolic over {backtick, space, LF, a-z} (no blank line, no line starting/ending with a space, no line starting with three backticks); expected HTML from a reference implementation of 6.1 in the harness", nc),
		"interrupt":  fmt.Sprintf("%d shapes of a list item directly behind a paragraph line: ordered markers whose number is 1 or 2 spelled with 0, 1, 2, 4 or 8 leading zeros (delimiter symbolic), bullets * + (symbolic), with and without content, indented 0-3: only a non-empty item that is a bullet or starts at 1 interrupts the paragraph", nint),
		"html":       fmt.Sprintf("%d HTML block shapes (4.6): start conditions 1-7 (type 1: every pair of opening and closing name from pre/script/style/textarea; type 6: 12 block tag names, opening and closing form; type 7: an unknown tag alone on its line), 0-3 columns of indentation, end condition on the first line or on a later line, text behind the end condition, a blank line for types 6-7; the letter case of the first, middle and last tag-name letter is symbolic, the other letters lower or upper case; content letters symbolic", nhtml),
		"spec":       fmt.Sprintf("%d examples of _test/spec.json (expected HTML from the file): final newline removed; an unrelated paragraph / ATX heading / thematic break with symbolic letters placed before; and, for the %d examples whose expected HTML ends in a closed block (p, h1-6, hr, blockquote, ul, ol), an extra final newline and the same unrelated block placed after; %d examples end in a code or HTML block and are skipped for the 'after' rewrites by that stated rule", nspec, nspec-nskip, nskip),
		"comparison": "byte equality after deleting newlines directly behind '>' or directly in front of '<' and trailing newlines (a subset of what the specification's own normaliser ignores)",
		"outside":    "tree shapes are enumerated, not symbolic; deeper or larger trees",
	}
	p.Rule = "expected HTML is produced by the harness's reference serializer (trees) or read from spec.json (examples), never by goldmark"
	return p, nil
}

func init() { Plans["C02"] = planC02 }
