package driver

import (
	"fmt"
	"math/rand"
	"strconv"

	"gosym/interp"
)

// Plans maps a property id to its plan builder.
var Plans = map[string]func(tier string, seed int64) (*Plan, error){}

func job(entry string, kv ...interface{}) interp.Job {
	p := map[string]string{}
	for i := 0; i+1 < len(kv); i += 2 {
		p[fmt.Sprint(kv[i])] = fmt.Sprint(kv[i+1])
	}
	return interp.Job{Entry: "verifh/h." + entry, Params: p}
}

func pjob(pkg, entry string, kv ...interface{}) interp.Job {
	j := job(entry, kv...)
	j.Entry = pkg + "." + entry
	return j
}

// Configuration lattice (DESIGN 1.8 Cfg).
var extSets = []string{"core", "gfm", "deflist", "footnote", "typographer", "cjk", "cjkcss3", "cjkesc", "gfm,deflist,footnote,typographer,cjk"}
var allExt = "gfm,deflist,footnote,typographer,cjk"

func cfg(ext, popts, ropts string) string { return ext + "|" + popts + "|" + ropts }

// corpusSlice picks a deterministic pseudo-random subset of (doc, position) pairs.
func corpusSlice(docs []Doc, seed int64, maxDocLen, count int) []struct {
	D   Doc
	Pos int
} {
	var all []struct {
		D   Doc
		Pos int
	}
	for _, d := range docs {
		if len(d.Markdown) > maxDocLen || len(d.Markdown) == 0 {
			continue
		}
		for p := 0; p <= len(d.Markdown); p++ {
			all = append(all, struct {
				D   Doc
				Pos int
			}{d, p})
		}
	}
	r := rand.New(rand.NewSource(seed))
	r.Shuffle(len(all), func(i, j int) { all[i], all[j] = all[j], all[i] })
	if count > 0 && len(all) > count {
		all = all[:count]
	}
	return all
}

func itoaI(n int) string { return strconv.Itoa(n) }

func init() {
	Plans["C01"] = planC01
	Plans["C19"] = planC19
	Plans["C13"] = planC13
}

func planC01(tier string, seed int64) (*Plan, error) {
	p := &Plan{MustReach: []string{"done"}}
	popts := []string{"", "autoid,attr"}
	ropts := []string{"", "unsafe,xhtml,hardwraps"}
	var cfgs []string
	for _, e := range extSets {
		for _, po := range popts {
			for _, ro := range ropts {
				cfgs = append(cfgs, cfg(e, po, ro))
			}
		}
	}
	for _, c := range cfgs {
		for n := 0; n <= 2; n++ {
			p.Jobs = append(p.Jobs, job("H_c01_convert", "cfg", c, "n", n))
		}
	}
	s3 := []string{cfg("core", "", ""), cfg("cjk", "", ""), cfg(allExt, "autoid,attr", "")}
	for _, c := range s3 {
		p.Jobs = append(p.Jobs, job("H_c01_convert", "cfg", c, "n", 3))
	}
	p.Bounds = map[string]interface{}{"S(L)": "every byte string of length 0..2 over all 256 byte values", "configurations": cfgs,
		"S(3)": "every byte string of length 3, configurations " + fmt.Sprint(s3)}
	p.Rule = "one job per (configuration, length); paths enumerated exhaustively by decision-prefix re-execution"
	return p, nil
}

func planC19(tier string, seed int64) (*Plan, error) {
	p := &Plan{MustReach: []string{"done", "valid-utf8"}}
	thorough := tier == "thorough"
	nEsc, nURL, nRes, nLink, kHex, kDec, kEnt := 4, 3, 3, 2, 3, 4, 2
	if thorough {
		nEsc, nURL, nRes, nLink, kHex, kDec, kEnt = 6, 4, 4, 3, 5, 7, 3
	}
	for n := 0; n <= nEsc; n++ {
		p.Jobs = append(p.Jobs, job("H_c19_escape_html", "n", n))
	}
	for n := 0; n <= nURL; n++ {
		p.Jobs = append(p.Jobs, job("H_c19_urlescape", "n", n))
	}
	// longer inputs over an alphabet that stresses the %XX and multi-byte paths
	for n := nURL + 1; n <= nURL+2; n++ {
		p.Jobs = append(p.Jobs, job("H_c19_urlescape", "n", n, "alpha", "%4g \xc3\xa9<"))
	}
	for pre := 0; pre <= 1; pre++ {
		for post := 0; post <= 2; post++ {
			p.Jobs = append(p.Jobs, job("H_c19_urlescape_triple", "pre", pre, "post", post))
		}
	}
	for n := 0; n <= nRes; n++ {
		p.Jobs = append(p.Jobs, job("H_c19_resolvers_utf8", "n", n))
	}
	p.Jobs = append(p.Jobs, job("H_c19_resolvers_utf8", "n", nRes+2, "alpha", "&#x1;\\a\xc3\xa9"))
	for k := 1; k <= kHex; k++ {
		p.Jobs = append(p.Jobs, job("H_c19_numref_hex", "k", k))
	}
	// long hexadecimal references: 8..17 digits, concrete prefix, two symbolic trailing digits
	for _, pre := range []string{"100000", "1000000", "10000000", "0000000", "ABCDEF00002", "10000000000000", "100000000000000"} {
		p.Jobs = append(p.Jobs, job("H_c19_numref_hex", "k", 2, "prefix", pre))
	}
	for k := 1; k <= kDec; k++ {
		p.Jobs = append(p.Jobs, job("H_c19_numref_dec", "k", k))
		p.Jobs = append(p.Jobs, job("H_c19_numref_dec", "k", k, "leadzero", 1))
	}
	for k := 1; k <= kEnt; k++ {
		p.Jobs = append(p.Jobs, job("H_c19_entity_name", "k", k))
	}
	for n := 0; n <= nLink; n++ {
		p.Jobs = append(p.Jobs, job("H_c19_linkref", "n", n))
	}
	p.Jobs = append(p.Jobs, job("H_c19_linkref", "n", nLink+2, "alpha", "aA \t\xc3\x9f"))
	p.Jobs = append(p.Jobs, job("H_c19_bytesfilter", "keys", 6, "base", 3))
	p.Jobs = append(p.Jobs, job("H_c19_bytesfilter", "keys", 5, "base", 2, "klen", 2, "alpha", "a!"))
	p.Bounds = map[string]interface{}{
		"EscapeHTML":               fmt.Sprintf("all byte strings of length 0..%d (256 values per byte)", nEsc),
		"URLEscape(false)":         fmt.Sprintf("all byte strings of length 0..%d; length %d..%d over {%%,4,g,space,C3,A9,<}; %%XX triples with symbolic hex digits and 0..1 / 0..2 symbolic lower-case neighbours", nURL, nURL+1, nURL+2),
		"resolvers":                fmt.Sprintf("all byte strings of length 0..%d; length %d over {&,#,x,1,;,\\,a,C3,A9}; &#x h{1..%d} ; (plus 8..17-digit references with a concrete prefix and two symbolic digits) and &# d{1..%d} ; with symbolic digits; & name{1..%d} ; with symbolic letters", nRes, nRes+2, kHex, kDec, kEnt),
		"ToLinkReference":          fmt.Sprintf("all byte strings of length 0..%d plus length %d over {a,A,space,tab,C3,9F}; symbolic per-letter case flips and whitespace-run rewriting", nLink, nLink+2),
		"BytesFilter":              "histories NewBytesFilter; Add×base; Extend; Extend; Add with 5-6 symbolic keys over a 5-byte alphabet in which four bytes share a hash bucket (1-byte keys), and 2-byte keys over {a,!}",
		"outside":                  "longer inputs; keys longer than 2 bytes; histories longer than 6 operations",
	}
	p.Rule = "one job per (function, length/template); all paths of each job explored"
	return p, nil
}

const astPkg = "github.com/yuin/goldmark/ast"

func planC13(tier string, seed int64) (*Plan, error) {
	p := &Plan{MustReach: []string{"done", "append", "insert-before", "insert-after", "replace", "remove", "remove-children"}}
	kStep, kWalk, kHist, steps := 4, 3, 3, 2
	if tier == "thorough" {
		kStep, kWalk, kHist, steps = 5, 4, 3, 3
	}
	for k := 1; k <= kStep; k++ {
		p.Jobs = append(p.Jobs, pjob(astPkg, "VerifH_c13_step", "k", k))
	}
	for k := 1; k <= kStep; k++ {
		p.Jobs = append(p.Jobs, pjob(astPkg, "VerifH_c13_sort", "k", k))
	}
	for k := 1; k <= kWalk; k++ {
		p.Jobs = append(p.Jobs, pjob(astPkg, "VerifH_c13_walk", "k", k))
	}
	p.Jobs = append(p.Jobs, pjob(astPkg, "VerifH_c13_history", "k", kHist, "steps", steps))
	p.Bounds = map[string]interface{}{
		"one-step": fmt.Sprintf("every ordered forest over K<=%d nodes (pre-state written directly into BaseNode fields) x every mutator among AppendChild/InsertBefore/InsertAfter/ReplaceChild/RemoveChild/RemoveChildren x every operand choice (self, v1 in pool or nil, insertee), under the documented preconditions (not into own subtree, not relative to itself)", kStep),
		"sort":     fmt.Sprintf("SortChildren on every forest over K<=%d nodes with symbolic keys in 0..2 per node", kStep),
		"walk":     fmt.Sprintf("Walk from every node of every forest over K<=%d nodes with every walker script (status in Stop/SkipChildren/Continue x error or not, per visit)", kWalk),
		"history":  fmt.Sprintf("all operation sequences of length %d over %d initially detached nodes", steps, kHist),
		"outside":  "larger pools; node types other than Paragraph (BaseNode is shared by all); SortChildren comparators that are not a total preorder",
	}
	p.Assumptions = []string{"pre-states are well-formed forests (representation invariant: parent/sibling/first/last/childCount agree); one step from an arbitrary well-formed state covers histories of any length over the pool"}
	p.Rule = "shape, operation and operands are solver-enumerated choices (IntRange + concretisation); each path is one (forest, call) pair"
	return p, nil
}
