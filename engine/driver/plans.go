package driver

import (
	"fmt"
	"math/rand"
	"strconv"

	"gosym/interp"
)

// Plans maps a property id to its plan builder.
var Plans = map[string]func(tier string, seed int64) (*Plan, error){}

func job(entry string, kv ...interface{}) interp.Job {
	p := map[string]string{}
	for i := 0; i+1 < len(kv); i += 2 {
		p[fmt.Sprint(kv[i])] = fmt.Sprint(kv[i+1])
	}
	return interp.Job{Entry: "verifh/h." + entry, Params: p}
}

func pjob(pkg, entry string, kv ...interface{}) interp.Job {
	j := job(entry, kv...)
	j.Entry = pkg + "." + entry
	return j
}

// Configuration lattice (DESIGN 1.8 Cfg).
var extSets = []string{"core", "gfm", "deflist", "footnote", "typographer", "cjk", "cjkcss3", "cjkesc", "gfm,deflist,footnote,typographer,cjk"}
var allExt = "gfm,deflist,footnote,typographer,cjk"

func cfg(ext, popts, ropts string) string { return ext + "|" + popts + "|" + ropts }

// corpusSlice picks a deterministic pseudo-random subset of (doc, position) pairs.
func corpusSlice(docs []Doc, seed int64, maxDocLen, count int) []struct {
	D   Doc
	Pos int
} {
	var all []struct {
		D   Doc
		Pos int
	}
	for _, d := range docs {
		if len(d.Markdown) > maxDocLen || len(d.Markdown) == 0 {
			continue
		}
		for p := 0; p <= len(d.Markdown); p++ {
			all = append(all, struct {
				D   Doc
				Pos int
			}{d, p})
		}
	}
	r := rand.New(rand.NewSource(seed))
	r.Shuffle(len(all), func(i, j int) { all[i], all[j] = all[j], all[i] })
	if count > 0 && len(all) > count {
		all = all[:count]
	}
	return all
}

func itoaI(n int) string { return strconv.Itoa(n) }

func init() {
	Plans["C01"] = planC01
	Plans["C19"] = planC19
}

func planC01(tier string, seed int64) (*Plan, error) {
	p := &Plan{MustReach: []string{"done"}}
	popts := []string{"", "autoid,attr"}
	ropts := []string{"", "unsafe,xhtml,hardwraps"}
	var cfgs []string
	for _, e := range extSets {
		for _, po := range popts {
			for _, ro := range ropts {
				cfgs = append(cfgs, cfg(e, po, ro))
			}
		}
	}
	for _, c := range cfgs {
		for n := 0; n <= 2; n++ {
			p.Jobs = append(p.Jobs, job("H_c01_convert", "cfg", c, "n", n))
		}
	}
	s3 := []string{cfg("core", "", ""), cfg("cjk", "", ""), cfg(allExt, "autoid,attr", "")}
	for _, c := range s3 {
		p.Jobs = append(p.Jobs, job("H_c01_convert", "cfg", c, "n", 3))
	}
	p.Bounds = map[string]interface{}{"S(L)": "every byte string of length 0..2 over all 256 byte values", "configurations": cfgs,
		"S(3)": "every byte string of length 3, configurations " + fmt.Sprint(s3)}
	p.Rule = "one job per (configuration, length); paths enumerated exhaustively by decision-prefix re-execution"
	return p, nil
}

func planC19(tier string, seed int64) (*Plan, error) {
	p := &Plan{MustReach: []string{"done"}}
	for n := 0; n <= 3; n++ {
		p.Jobs = append(p.Jobs, job("H_c19_escape_html", "n", n))
		p.Jobs = append(p.Jobs, job("H_c19_urlescape", "n", n))
	}
	p.Bounds = map[string]interface{}{"S(L)": "inputs of length 0..3, all 256 byte values"}
	return p, nil
}
