package driver

// The repo's own test corpus, read from /repo at run time.

import (
	"bufio"
	"encoding/json"
	"os"
	"path/filepath"
	"strings"
)

type Doc struct {
	Name     string
	Markdown string
	HTML     string // expected (spec.json only)
	File     string
}

func LoadSpec() ([]Doc, error) {
	b, err := os.ReadFile(filepath.Join(RepoDir, "_test", "spec.json"))
	if err != nil {
		return nil, err
	}
	var raw []struct {
		Markdown string `json:"markdown"`
		HTML     string `json:"html"`
		Example  int    `json:"example"`
	}
	if err := json.Unmarshal(b, &raw); err != nil {
		return nil, err
	}
	var out []Doc
	for _, r := range raw {
		out = append(out, Doc{Name: "spec#" + itoa(r.Example), Markdown: r.Markdown, HTML: r.HTML, File: "spec.json"})
	}
	return out, nil
}

func itoa(n int) string {
	b, _ := json.Marshal(n)
	return string(b)
}

const attrSep = "//- - - - - - - - -//"
const caseSep = "//= = = = = = = = = = = = = = = = = = = = = = = =//"

// LoadTxt parses a testutil-format case file; only the Markdown side is used (as seeds).
func LoadTxt(path string) ([]Doc, error) {
	fp, err := os.Open(path)
	if err != nil {
		return nil, err
	}
	defer fp.Close()
	sc := bufio.NewScanner(fp)
	sc.Buffer(make([]byte, 1<<20), 1<<20)
	var out []Doc
	state := 0
	var md, html []string
	n := 0
	for sc.Scan() {
		line := sc.Text()
		switch state {
		case 0:
			if line == attrSep {
				state = 1
				md = nil
			}
		case 1:
			if line == attrSep {
				state = 2
				html = nil
			} else {
				md = append(md, line)
			}
		case 2:
			if line == caseSep {
				n++
				out = append(out, Doc{Name: filepath.Base(path) + "#" + itoa(n), Markdown: strings.Join(md, "\n"), File: filepath.Base(path)})
				state = 0
			} else {
				html = append(html, line)
			}
		}
	}
	return out, sc.Err()
}

// LoadCorpus returns spec examples plus every *.txt case under _test and extension/_test.
func LoadCorpus() ([]Doc, error) {
	docs, err := LoadSpec()
	if err != nil {
		return nil, err
	}
	for _, pat := range []string{"_test/*.txt", "extension/_test/*.txt"} {
		files, _ := filepath.Glob(filepath.Join(RepoDir, pat))
		for _, f := range files {
			d, err := LoadTxt(f)
			if err != nil {
				return nil, err
			}
			docs = append(docs, d...)
		}
	}
	return docs, nil
}
