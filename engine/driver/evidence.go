package driver

import (
	"encoding/json"
	"os"
	"path/filepath"
	"sort"
	"strings"
)

var commonAssumptions = []string{
	"engine: forked golang.org/x/tools/go/ssa/interp v0.29.0 widened with bit-vector terms; SSA rebuilt from /repo's working tree on this run",
	"solver: z3 (QF_BV) via one persistent `z3 -in` per worker; exact single-byte domain pre-filter cross-checked against z3 on 1/64 of its decisions",
	"stubs: sync.Once.Do (run-once flag in the Once cell), sync.Pool.Get=New()/nil, Put/Mutex/RWMutex no-ops, sort.Slice=real sort.Slice with interpreted less, internal/bytealg in plain Go, util.BytesToReadOnlyString/StringToReadOnlyBytes as copies (bytes view marked read-only), strings.Builder.String without unsafe",
	"package init skipped for runtime, internal/*, sync, syscall, os, reflect, time, errors; all other initialisers (goldmark tables, regexp.MustCompile, unicode) run from source",
	"int/uint are 64-bit; lengths, capacities, slice bounds, map sizes and pointers are concrete on every path (symbolic values reaching them fork per feasible value)",
	"append capacity growth mirrors runtime.growslice for the static element size; conversions []byte(string) have cap==len",
	"single goroutine; maps iterate in insertion order",
}

func writeEvidence(p *Plan, agg *Agg, recs []*violRec, validated, mismatches, nViol, nKnown int, complete bool, wall float64, broken bool) error {
	type sample struct {
		Entry   string            `json:"entry"`
		Params  map[string]string `json:"params,omitempty"`
		Model   map[string]uint64 `json:"model"`
		Obs     map[string]string `json:"obs"`
		Outcome string            `json:"outcome"`
	}
	var samples []sample
	for i, s := range agg.Samples {
		if i >= 5 {
			break
		}
		ps := map[string]string{}
		for k, v := range s.Params {
			if len(v) > 80 {
				v = v[:80] + "…"
			}
			ps[k] = v
		}
		samples = append(samples, sample{s.Entry, ps, s.Model, s.Obs, s.Outcome})
	}
	if len(samples) == 0 {
		samples = append(samples, sample{Entry: "(no completed path sampled)", Outcome: "none"})
	}
	var funcs, execFuncs []string
	for k := range agg.Stats.Funcs {
		if strings.HasPrefix(k, "exec:") {
			execFuncs = append(execFuncs, strings.TrimPrefix(k, "exec:"))
		} else {
			funcs = append(funcs, k)
		}
	}
	sort.Strings(funcs)
	sort.Strings(execFuncs)
	if len(execFuncs) > 3000 {
		execFuncs = execFuncs[:3000]
	}
	type site struct {
		Pos string `json:"pos"`
		N   int    `json:"n"`
	}
	var sites []site
	for k, v := range agg.Stats.Sites {
		sites = append(sites, site{k, v})
	}
	sort.Slice(sites, func(i, j int) bool {
		return sites[i].N > sites[j].N || (sites[i].N == sites[j].N && sites[i].Pos < sites[j].Pos)
	})
	if len(sites) > 60 {
		sites = sites[:60]
	}
	var viols []map[string]interface{}
	for _, r := range recs {
		viols = append(viols, map[string]interface{}{"kind": r.Kind, "msg": r.Msg, "model": r.Model, "obs": r.Obs, "stack": firstN(r.Stack, 6),
			"native": r.Confirmed, "known": r.Known, "replay": r.File, "entry": r.Entry})
		if len(viols) >= 40 {
			break
		}
	}
	states := agg.Stats.Paths
	if states < 1 {
		states = 1
	}
	trans := agg.Stats.Decisions
	if trans < 1 {
		trans = 1
	}
	cov := map[string]interface{}{
		"states":                        states,
		"transitions":                   trans,
		"traces_validated_against_impl": validated,
		"samples":                       samples,
		"exhaustive":                    complete && !broken,
		"explanation": "states = completed symbolic execution paths of the real code (each stands for every input that drives the code through the same decisions); " +
			"transitions = symbolic decisions taken; every harness assertion and every Go panic condition on each path was discharged by z3 (or by the exact byte-domain filter) " +
			"over all inputs of that path; traces_validated = sampled path models re-run in the natively compiled code with byte-identical observations",
		"bounds":                   p.Bounds,
		"rule":                     p.Rule,
		"complete":                 complete,
		"incomplete_reasons":       agg.Incomplete,
		"unexplored_work_items":    agg.Leftover,
		"jobs":                     len(p.Jobs),
		"concrete_validation_runs": len(p.Concrete),
		"infeasible_paths":         agg.Stats.Infeasible,
		"queries": map[string]int{"sat": agg.Stats.Sat, "unsat": agg.Stats.Unsat, "unknown": agg.Stats.Unknown,
			"prefilter_decided": agg.Stats.Prefilter, "prefilter_crosschecked": agg.Stats.PrefilterChecked, "cached": agg.Stats.Cached},
		"assertions_discharged":             agg.Stats.Asserts,
		"solver_s":                          float64(agg.Stats.SolverNs) / 1e9,
		"interp_s":                          float64(agg.Stats.InterpNs) / 1e9,
		"ssa_instructions":                  agg.Stats.Instrs,
		"max_decision_depth":                agg.Stats.MaxDepth,
		"vacuity_reach":                     agg.Stats.Reach,
		"functions_with_symbolic_decisions": funcs,
		"goldmark_functions_executed":       execFuncs,
		"symbolic_branch_sites":             sites,
		"native_mismatches":                 mismatches,
		"known_findings_hit":                nKnown,
		"violation_records":                 viols,
	}
	ev := map[string]interface{}{
		"property_id": p.Property,
		"tier":        p.Tier,
		"seed":        p.Seed,
		"level":       p.levelOr("model_checking"),
		"coverage":    cov,
		"assumptions": append(append([]string{}, commonAssumptions...), p.Assumptions...),
		"wall_s":      wall,
		"violations":  nViol,
	}
	b, err := json.MarshalIndent(ev, "", " ")
	if err != nil {
		return err
	}
	dir := filepath.Join(VerifDir, "evidence")
	if d := os.Getenv("GOSYM_EVIDENCE_DIR"); d != "" {
		dir = d // mutation-testing runs (tools/mutest.sh) keep the committed evidence untouched
	}
	os.MkdirAll(dir, 0755)
	return os.WriteFile(filepath.Join(dir, p.Property+".json"), b, 0644)
}

func (p *Plan) levelOr(d string) string {
	if p.Level != "" {
		return p.Level
	}
	return d
}
