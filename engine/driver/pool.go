package driver

// Worker pool: N `gosym worker` processes, a shared job queue, and re-queuing of the
// work-list a worker hands back when it reaches its per-chunk path cap.

import (
	"strconv"
	"bufio"
	"encoding/json"
	"fmt"
	"io"
	"os"
	"os/exec"
	"sync"
	"time"

	"gosym/interp"
)

type worker struct {
	cmd *exec.Cmd
	in  io.WriteCloser
	out *bufio.Reader
}

func startWorker(env []string) (*worker, error) {
	exe, err := os.Executable()
	if err != nil {
		return nil, err
	}
	cmd := exec.Command(exe, "worker")
	cmd.Env = append(os.Environ(), env...)
	cmd.Stderr = os.Stderr
	in, _ := cmd.StdinPipe()
	out, _ := cmd.StdoutPipe()
	if err := cmd.Start(); err != nil {
		return nil, err
	}
	w := &worker{cmd: cmd, in: in, out: bufio.NewReaderSize(out, 1<<20)}
	line, err := w.out.ReadBytes('\n')
	if err != nil {
		return nil, fmt.Errorf("worker failed to start: %v %s", err, line)
	}
	return w, nil
}

func (w *worker) run(job *interp.Job) (*interp.Result, error) {
	b, _ := json.Marshal(job)
	b = append(b, '\n')
	if _, err := w.in.Write(b); err != nil {
		return nil, err
	}
	line, err := w.out.ReadBytes('\n')
	if err != nil {
		return nil, fmt.Errorf("worker died: %v", err)
	}
	var res interp.Result
	if err := json.Unmarshal(line, &res); err != nil {
		return nil, err
	}
	return &res, nil
}

func (w *worker) stop() {
	w.in.Close()
	done := make(chan struct{})
	go func() { w.cmd.Wait(); close(done) }()
	select {
	case <-done:
	case <-time.After(2 * time.Second):
		w.cmd.Process.Kill()
	}
}

// Agg accumulates results per job spec.
type Agg struct {
	Stats      interp.Stats
	Violations []interp.Violation
	Samples    []SampleRec
	EngineErrs []string
	Incomplete []string
	JobsDone   int
	Chunks     int
	Leftover   int // work items not explored because of a cap
}

type SampleRec struct {
	Entry  string
	Params map[string]string
	interp.Sample
}

type poolOpts struct {
	Workers                 int
	ChunkSize               int       // paths per chunk before a worker hands its work-list back
	Deadline                time.Time // stop scheduling after this instant
	MaxPaths                int       // global path cap (0 = none)
	Budget                  int64     // instruction budget per path
	SampleEvery, MaxSamples int
}

// runJobs explores every job to exhaustion (or until a cap), in parallel.
func runJobs(specs []interp.Job, o poolOpts) (*Agg, error) {
	agg := &Agg{Stats: interp.Stats{Reach: map[string]int{}, Sites: map[string]int{}, Funcs: map[string]int{}}}
	if len(specs) == 0 {
		return agg, nil
	}
	if o.Workers <= 0 {
		o.Workers = 16
	}
	if o.ChunkSize <= 0 {
		o.ChunkSize = 300
	}
	var mu sync.Mutex
	cond := sync.NewCond(&mu)
	queue := make([]*interp.Job, 0, len(specs))
	nextID := 0
	for i := range specs {
		j := specs[i]
		nextID++
		j.ID = nextID
		queue = append(queue, &j)
	}
	inflight := 0
	stopped := false
	var firstErr error
	stopAfterViolations, _ := strconv.Atoi(os.Getenv("GOSYM_STOP_AFTER_VIOLATIONS"))

	take := func() *interp.Job {
		mu.Lock()
		defer mu.Unlock()
		for {
			if firstErr != nil {
				return nil
			}
			if !stopped && stopAfterViolations > 0 && len(agg.Violations) >= stopAfterViolations {
				// mutation-testing runs only (tools/mutest.sh): enough counterexamples to confirm natively
				stopped = true
				agg.Incomplete = append(agg.Incomplete, "stopped early after the requested number of violations (GOSYM_STOP_AFTER_VIOLATIONS)")
				queue = nil
			}
			if !stopped && (time.Now().After(o.Deadline) || (o.MaxPaths > 0 && agg.Stats.Paths >= o.MaxPaths)) {
				stopped = true
				if len(queue) > 0 {
					n := 0
					for _, j := range queue {
						if len(j.Items) == 0 {
							n++
						} else {
							n += len(j.Items)
						}
					}
					agg.Leftover += n
					agg.Incomplete = append(agg.Incomplete, fmt.Sprintf("time/path cap reached with %d work items unexplored", n))
					queue = nil
				}
			}
			if len(queue) > 0 {
				// LIFO on re-queued chunks keeps memory bounded; FIFO on initial jobs is fine too
				j := queue[len(queue)-1]
				queue = queue[:len(queue)-1]
				inflight++
				return j
			}
			if inflight == 0 {
				cond.Broadcast()
				return nil
			}
			cond.Wait()
		}
	}
	finish := func(j *interp.Job, res *interp.Result, err error) {
		mu.Lock()
		defer mu.Unlock()
		inflight--
		if err != nil {
			if firstErr == nil {
				firstErr = err
			}
			cond.Broadcast()
			return
		}
		agg.Chunks++
		mergeStats(&agg.Stats, &res.Stats)
		agg.Violations = append(agg.Violations, res.Violations...)
		for _, s := range res.Samples {
			if len(agg.Samples) < 4000 {
				agg.Samples = append(agg.Samples, SampleRec{Entry: j.Entry, Params: j.Params, Sample: s})
			}
		}
		for _, e := range res.EngineErrs {
			agg.EngineErrs = appendUniq(agg.EngineErrs, fmt.Sprintf("%s %v: %s", j.Entry, j.Params, e))
		}
		for _, e := range res.Incomplete {
			agg.Incomplete = appendUniq(agg.Incomplete, e)
		}
		if len(res.Leftover) > 0 && len(res.EngineErrs) == 0 {
			if stopped {
				agg.Leftover += len(res.Leftover)
			} else {
				// split the leftover work-list into a few chunks so idle workers can help
				parts := 4
				if len(res.Leftover) < parts {
					parts = len(res.Leftover)
				}
				per := (len(res.Leftover) + parts - 1) / parts
				for a := 0; a < len(res.Leftover); a += per {
					b := a + per
					if b > len(res.Leftover) {
						b = len(res.Leftover)
					}
					nj := *j
					nextID++
					nj.ID = nextID
					nj.Items = res.Leftover[a:b]
					nj.SampleEvery = 0
					queue = append(queue, &nj)
				}
			}
		} else {
			agg.JobsDone++
		}
		cond.Broadcast()
	}

	nw := o.Workers
	if nw > len(specs)*4 {
		nw = len(specs) * 4
	}
	if nw < 1 {
		nw = 1
	}
	var wg sync.WaitGroup
	for k := 0; k < nw; k++ {
		wg.Add(1)
		go func() {
			defer wg.Done()
			w, err := startWorker(GoEnv)
			if err != nil {
				mu.Lock()
				if firstErr == nil {
					firstErr = err
				}
				cond.Broadcast()
				mu.Unlock()
				return
			}
			defer w.stop()
			for {
				j := take()
				if j == nil {
					return
				}
				j.MaxPaths = o.ChunkSize
				j.InstrBudget = o.Budget
				if len(j.Items) == 0 {
					j.SampleEvery, j.MaxSamples = o.SampleEvery, o.MaxSamples
				}
				res, err := w.run(j)
				finish(j, res, err)
				if err != nil {
					return
				}
			}
		}()
	}
	wg.Wait()
	return agg, firstErr
}

func appendUniq(xs []string, s string) []string {
	for _, x := range xs {
		if x == s {
			return xs
		}
	}
	if len(xs) < 40 {
		xs = append(xs, s)
	}
	return xs
}

func mergeStats(a, b *interp.Stats) {
	a.Paths += b.Paths
	a.Infeasible += b.Infeasible
	a.Decisions += b.Decisions
	a.Forced += b.Forced
	a.Sat += b.Sat
	a.Unsat += b.Unsat
	a.Unknown += b.Unknown
	a.Cached += b.Cached
	a.Prefilter += b.Prefilter
	a.PrefilterChecked += b.PrefilterChecked
	a.Asserts += b.Asserts
	a.SolverNs += b.SolverNs
	a.InterpNs += b.InterpNs
	a.Instrs += b.Instrs
	if b.MaxDepth > a.MaxDepth {
		a.MaxDepth = b.MaxDepth
	}
	for k, v := range b.Reach {
		a.Reach[k] += v
	}
	for k, v := range b.Sites {
		a.Sites[k] += v
	}
	for k, v := range b.Funcs {
		a.Funcs[k] += v
	}
}
