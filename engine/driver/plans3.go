package driver

import (
	"fmt"

	"gosym/interp"
)

// Families added after the third round of seeded changes (DESIGN section 9): inputs that exercise one
// extension's own syntax, attribute blocks, and long documents whose length crosses internal thresholds.

// extFamily: one extension's syntax as an alphabet (free bytes over it) or a token set, under the
// configuration that enables it alone and under the all-extensions configuration.
type extFamily struct {
	Name   string
	Ext    string // extension set that enables the syntax
	Alpha  string // S(L,alpha) when non-empty
	Tokens []string
	LQ, LT int // length quick / thorough
}

var extFamilies = []extFamily{
	{"typographer", "typographer", "'\"-.<>9s a\n", nil, 4, 5},
	{"typographer-decade", "typographer", "", []string{"'", "9", "s", "a", " ", "\n", "# ", "\""}, 4, 5},
	{"linkify", "linkify", "", []string{"www.", "http://", "https://", "a", ".", "@", " ", "\n", "(", ")", "<", "&amp;", ";", "_", "~", "/", "?", "*"}, 3, 4},
	{"table", "table", "a|-:\n \\`", nil, 5, 6},
	{"footnote", "footnote", "", []string{"[^", "a", "]", ":", " ", "\n", "[^a]", "[^a]: ", "    "}, 4, 5},
	{"deflist", "deflist", "a:\n ~\t", nil, 5, 6},
	{"strike", "strike", "~a \n*\\", nil, 5, 6},
	{"tasklist", "tasklist", "", []string{"- ", "[ ]", "[x]", " ", "a", "\n", "[", "> "}, 4, 5},
	{"cjk", "cjk", "", []string{"\xe3\x81\x82", "a", "\n", " ", "\\", "\xef\xbc\x8c", "\x80", "*"}, 4, 5},
	{"cjkcss3", "cjkcss3", "", []string{"\xe3\x81\x82", "a", "\n", "\xef\xbc\x8c", "*", "\xe3\x80\x82", ".", "\xf0\x9f\x98\x80"}, 4, 5},
	{"cjkesc", "cjkesc", "", []string{"\xe3\x81\x82", "a", "\\ ", "\\", " ", "*", "\n", "`"}, 4, 5},
}

// attribute blocks on headings: token sequences between "# a {" and "}" (ATX) and "a {" … "}\n===" (Setext)
var attrTokens = []string{".x", "#i", "class=", "Class=", "id=", "k=", "1", "\"v\"", "[a]", "true", " ", "x", "="}

// extFamilyJobs returns the jobs of the extension families. popts/ropts are the parser/renderer option
// strings of the configurations; light halves the lengths (multi-conversion harnesses).
// deepExtFamilies: the quick tier runs the extension families at their full quick length only for the checks
// whose property is about what an extension's own syntax can do (C01 crash, C03 markup, C05 tree); the other
// Convert-based checks run them one shorter.
var deepExtFamilies = false

// the families that keep their full quick length where deepExtFamilies is set (the others run one shorter in the quick tier)
var deepExtNames = map[string]bool{"typographer": true, "typographer-decade": true, "footnote": true, "table": true, "cjk": true, "tasklist": true}

func extFamilyJobs(entry string, thorough, light bool, popts, ropts string, only map[string]bool, extra ...interface{}) ([]interp.Job, string) {
	var jobs []interp.Job
	var names []string
	for _, f := range extFamilies {
		if only != nil && !only[f.Name] {
			continue
		}
		n := f.LQ
		if thorough {
			n = f.LT
		}
		if light || (!thorough && (!deepExtFamilies || !deepExtNames[f.Name])) {
			n = f.LQ - 1
		}
		cfgs := []string{cfg(f.Ext, popts, ropts)}
		if !light {
			cfgs = append(cfgs, cfg(allExt, popts, ropts))
		}
		for i, c := range cfgs {
			m := n
			if i == 1 && !thorough {
				m = n - 1 // the all-extensions configuration one shorter in the quick tier
			}
			kv := []interface{}{"cfg", c, "n", m}
			if f.Alpha != "" {
				kv = append(kv, "alpha", f.Alpha)
			} else {
				kv = append(kv, "tokens", joinTok(f.Tokens))
			}
			jobs = append(jobs, job(entry, append(kv, extra...)...))
		}
		names = append(names, fmt.Sprintf("%s(%d)", f.Name, n))
	}
	return jobs, fmt.Sprintf("per-extension syntax families (free bytes over the extension's alphabet, or token sequences), each under the extension alone and under all extensions (one shorter in the quick tier): %v; alphabets/tokens: %+v", names, extFamilies)
}

func attrFamilyJobs(entry string, thorough, light bool, exts []string, ropts string, extra ...interface{}) ([]interp.Job, string) {
	var jobs []interp.Job
	n := 3
	if thorough {
		n = 4
	}
	if light {
		n = 2
	}
	for _, e := range exts {
		for _, po := range []string{"attr", "autoid,attr"} {
			c := cfg(e, po, ropts)
			jobs = append(jobs, job(entry, append([]interface{}{"cfg", c, "n", n, "tokens", joinTok(attrTokens), "pre", "# a {", "post", "}"}, extra...)...))
			if !light {
				jobs = append(jobs, job(entry, append([]interface{}{"cfg", c, "n", n - 1, "tokens", joinTok(attrTokens), "pre", "a {", "post", "}\n==="}, extra...)...))
				jobs = append(jobs, job(entry, append([]interface{}{"cfg", c, "n", n - 1, "tokens", joinTok(attrTokens), "pre", "## ## {", "post", "}\n"}, extra...)...))
				jobs = append(jobs, job(entry, append([]interface{}{"cfg", c, "n", n - 1, "tokens", joinTok(attrTokens), "pre", "# a # {", "post", "}\n\n# a # {#i}"}, extra...)...))
			}
		}
	}
	return jobs, fmt.Sprintf("heading attribute blocks: every sequence of %d tokens from %q between '# a {' and '}' (and %d tokens for the Setext form 'a {…}' + underline, an empty ATX heading with a closing sequence '## ## {…}', and a repeated heading with closing sequence) x extension sets %v x {attr, autoid+attr}", n, attrTokens, n-1, exts)
}

// longDocJobs: a unit repeated repn times in front of a short tail with one symbolic byte, for every
// repn in [0,maxN] — the thresholds of internal tables (blank-line statistics, id tables, segment
// slices, bufio) are crossed at some repn whatever their size below the bound.
type longUnit struct {
	Unit, Tail string
	Pos        int
}

var longUnits = []longUnit{
	{"p\n\n", "- a\n\n- b\n", -1},
	{"- a\n", "\n- b\n\n  c\n", -1},
	{"a\n", "b\n===\n", 0},
	{"> a\n", "> - b\n\n", -1},
	{"# a\n\n", "# a #\n", -1},
	{"[a]: b\n", "\n[a] [A]\n", -1},
}

// longDocMaxN: quick-tier bound of the repetition count (C08, whose property the long-document change broke, sets 70)
var longDocMaxN = 40

func longDocJobs(entry string, thorough, light bool, cfgs []string, extra ...interface{}) ([]interp.Job, string) {
	var jobs []interp.Job
	maxN, step := longDocMaxN, 1
	if thorough {
		maxN = 300
	}
	if light {
		maxN, step = 70, 3
	}
	us := longUnits
	if light {
		us = longUnits[:2]
	}
	k := 0
	for ui, u := range us {
		m := maxN
		if ui >= 2 && !thorough {
			m = maxN / 2
		}
		for n := 0; n <= m; n += step {
			c := cfgs[k%len(cfgs)]
			k++
			pos := u.Pos
			if pos < 0 {
				pos = len(u.Tail) // one symbolic byte appended
			}
			jobs = append(jobs, job(entry, append([]interface{}{"cfg", c, "rep", u.Unit, "repn", n, "seed", u.Tail, "pos", pos, "window", 1}, extra...)...))
		}
	}
	return jobs, fmt.Sprintf("long documents: each unit of %q repeated n times for EVERY n in 0..%d (0..%d for the later units; step %d) in front of its tail, one fully symbolic byte in the tail, configurations %v in rotation", us, maxN, maxN/2, step, cfgs)
}

// deepNestJobs: "arbitrarily deep nesting" — one opener repeated n times in front of a short tail with a
// symbolic byte, optionally with the matching closers behind it.
func deepNestJobs(entry string, thorough bool, cfgs []string, extra ...interface{}) ([]interp.Job, string) {
	type unit struct{ open, close string }
	units := []unit{{"> ", ""}, {"- ", ""}, {"*", "*"}, {"[", "](u)"}, {"![", "](u)"}, {"`", "`"}, {"_a", "_"}, {"<", ">"}, {"(", ")"}, {"*a ", ""}, {"1. ", ""}, {"**", "**"}, {"\\", ""}, {"&", ";"}, {"~~", "~~"}, {"[^", "]"}, {"|", "|\n|-"}}
	ns := []int{16, 100}
	if thorough {
		ns = []int{16, 64, 128, 250}
	}
	var jobs []interp.Job
	k := 0
	for _, u := range units {
		for _, n := range ns {
			if (u.open == "- " || u.open == "1. ") && n > 128 {
				n = 128 // list nesting is quadratic in the interpreter; 128 levels stay inside the instruction budget
			}
			c := cfgs[k%len(cfgs)]
			k++
			post := ""
			if u.close != "" && k%2 == 0 {
				for i := 0; i < n; i++ {
					post += u.close
				}
			}
			jobs = append(jobs, job(entry, append([]interface{}{"cfg", c, "rep", u.open, "repn", n, "seed", "a](b)", "pos", k % 6, "window", 1, "post", post + "\n"}, extra...)...))
		}
	}
	return jobs, fmt.Sprintf("deep nesting: each opener of %q repeated n times, n in %v (list markers at most 128), in front of 'a](b)' with one fully symbolic byte, for alternate n followed by the same number of matching closers; configurations %v in rotation", units, ns, cfgs)
}

// extSeeds: small documents that put the extensions' constructs into less common arrangements (footnotes
// defined and referenced in different orders, several escaped pipes inside one code span of a table cell,
// nested definition lists, task items in quotes, …); one fully symbolic byte slid over them.
var extSeeds = []string{
	"[^b][^a]\n\n[^a]: x\n[^b]: y",
	"[^c] [^a] [^b]\n\n[^a]: x\n[^b]: y\n[^c]: z\n",
	"`a\\|\\|`|\n-|",
	"| `a\\|b\\|c` | d |\n|---|:-:|\n| `\\|` | e\\|f |\n",
	"a\n: b\n: c\n\n  d\ne\n: f\n",
	"> - [x] a\n>   - [ ] b\n",
	"~~a *b~~ c* ~d~\n",
	"| a |\n|---|\n| b | c |\n| d\n",
	"x www.a.b/c(d) http://e.f, g@h.ij.\n",
	"'a' \"b\" -- --- ... << >> '90s\n",
	"# a {#i .c k=v}\n\nb {.d}\n===\n",
	"x[^1]\n\n[^1]: a\n\n    b\n\n    > c[^1]\n",
}

func extSeedJobs(entry string, thorough, light bool, cfgs []string, extra ...interface{}) ([]interp.Job, string) {
	var jobs []interp.Job
	step := 2
	if thorough {
		step = 1
	}
	if light {
		step = 4
	}
	k := 0
	for si, sd := range extSeeds {
		for q := si % step; q <= len(sd); q += step {
			c := cfgs[k%len(cfgs)]
			k++
			jobs = append(jobs, job(entry, append([]interface{}{"cfg", c, "seed", sd, "pos", q, "window", 1}, extra...)...))
		}
	}
	return jobs, fmt.Sprintf("%d extension documents %q with one fully symbolic byte at every %d. offset (thorough: every offset), configurations %v in rotation", len(extSeeds), extSeeds, step, cfgs)
}
