package driver

// Native replay: the harness module is compiled with `go build -overlay` against /repo's
// current tree and run on concrete models.

import (
	"bytes"
	"context"
	"encoding/json"
	"fmt"
	"os"
	"os/exec"
	"path/filepath"
	"strings"
	"time"
)

type ReplayCase struct {
	Entry  string            `json:"entry"`
	Params map[string]string `json:"params"`
	Model  map[string]uint64 `json:"model"`
}

type ReplayOut struct {
	Outcome string // ok | assert <msg> | panic <msg> | assume-failed | missing-entry | timeout | crash
	Obs     map[string]string
	Reach   []string
	Raw     string
}

func workDir() string {
	d := filepath.Join(VerifDir, ".work")
	os.MkdirAll(d, 0755)
	return d
}

var replayBin string

// BuildReplay compiles the native replay binary once per run.
func BuildReplay() (string, error) {
	if replayBin != "" {
		return replayBin, nil
	}
	ov, err := OverlayFiles()
	if err != nil {
		return "", err
	}
	ovj, _ := json.Marshal(map[string]interface{}{"Replace": ov})
	ovPath := filepath.Join(workDir(), fmt.Sprintf("overlay-%d.json", os.Getpid()))
	if err := os.WriteFile(ovPath, ovj, 0644); err != nil {
		return "", err
	}
	bin := filepath.Join(workDir(), fmt.Sprintf("replay-%d", os.Getpid()))
	cmd := exec.Command("go", "build", "-overlay", ovPath, "-o", bin, "./cmd/replay")
	cmd.Dir = HarnessDir
	cmd.Env = append(os.Environ(), GoEnv...)
	out, err := cmd.CombinedOutput()
	os.Remove(ovPath)
	if err != nil {
		return "", fmt.Errorf("building native replay binary: %v\n%s", err, out)
	}
	replayBin = bin
	return bin, nil
}

func CleanupReplay() {
	if replayBin != "" {
		os.Remove(replayBin)
		replayBin = ""
	}
}

func parseReplay(out string, n int) []ReplayOut {
	res := make([]ReplayOut, n)
	cur := -1
	for _, line := range strings.Split(out, "\n") {
		switch {
		case strings.HasPrefix(line, "CASE "):
			fmt.Sscanf(line, "CASE %d", &cur)
			if cur >= 0 && cur < n {
				res[cur].Obs = map[string]string{}
			}
		case cur < 0 || cur >= n:
		case strings.HasPrefix(line, "OBS "):
			f := strings.SplitN(line, " ", 3)
			if len(f) == 3 {
				res[cur].Obs[f[1]] = f[2]
			} else if len(f) == 2 {
				res[cur].Obs[f[1]] = ""
			}
		case strings.HasPrefix(line, "REACH "):
			res[cur].Reach = append(res[cur].Reach, line[6:])
		case strings.HasPrefix(line, "OUTCOME "):
			res[cur].Outcome = line[8:]
		}
		if cur >= 0 && cur < n {
			res[cur].Raw += line + "\n"
		}
	}
	return res
}

// RunReplay runs the cases natively. A crash or hang in batch mode falls back to one process per case.
func RunReplay(cases []ReplayCase, perCase time.Duration) ([]ReplayOut, error) {
	bin, err := BuildReplay()
	if err != nil {
		return nil, err
	}
	run := func(cs []ReplayCase, to time.Duration) (string, error) {
		f := filepath.Join(workDir(), fmt.Sprintf("cases-%d-%d.json", os.Getpid(), time.Now().UnixNano()))
		b, _ := json.Marshal(cs)
		if err := os.WriteFile(f, b, 0644); err != nil {
			return "", err
		}
		defer os.Remove(f)
		ctx, cancel := context.WithTimeout(context.Background(), to)
		defer cancel()
		cmd := exec.CommandContext(ctx, bin, f)
		var so, se bytes.Buffer
		cmd.Stdout, cmd.Stderr = &so, &se
		err := cmd.Run()
		if ctx.Err() != nil {
			return so.String(), fmt.Errorf("timeout")
		}
		if err != nil {
			return so.String(), fmt.Errorf("%v: %s", err, lastLines(se.String(), 6))
		}
		return so.String(), nil
	}
	out, err := run(cases, perCase*time.Duration(len(cases))+10*time.Second)
	res := parseReplay(out, len(cases))
	if err == nil {
		return res, nil
	}
	// one by one for the cases without an outcome
	for i := range cases {
		if res[i].Outcome != "" {
			continue
		}
		o, e := run(cases[i:i+1], perCase)
		r := parseReplay(o, 1)[0]
		if r.Outcome == "" {
			if e != nil && e.Error() == "timeout" {
				r.Outcome = "timeout"
			} else if e != nil {
				r.Outcome = "crash " + e.Error()
			}
		}
		res[i] = r
	}
	return res, nil
}

func lastLines(s string, n int) string {
	ls := strings.Split(strings.TrimSpace(s), "\n")
	if len(ls) > n {
		ls = ls[len(ls)-n:]
	}
	return strings.Join(ls, " | ")
}
