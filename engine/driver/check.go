package driver

// `gosym check <ID> --tier quick|thorough`: explore the plan, validate the translator,
// replay counterexamples natively, match known findings, write evidence.

import (
	"crypto/sha1"
	"encoding/hex"
	"encoding/json"
	"fmt"
	"os"
	"path/filepath"
	"regexp"
	"sort"
	"strconv"
	"strings"
	"time"

	"gosym/interp"
)

type Plan struct {
	Property    string
	Tier        string
	Seed        int64
	Jobs        []interp.Job
	Concrete    []interp.Job // concrete corpus runs through the interpreter (translator validation)
	Bounds      map[string]interface{}
	Assumptions []string
	MustReach   []string // vacuity witnesses: tags that at least one path must reach
	Level       string
	Rule        string
	TimeCap     time.Duration
	Budget      int64
	ChunkSize   int
	SampleEvery int
	MaxSamples  int
	Workers     int
}

type KnownFinding struct {
	Property string `json:"property"`
	ID       string `json:"id"`
	Desc     string `json:"desc"`
	Kind     string `json:"kind,omitempty"`
	MsgRe    string `json:"msg_re,omitempty"`
	StackRe  string `json:"stack_re,omitempty"`
	EntryRe  string `json:"entry_re,omitempty"`
	ObsName  string `json:"obs_name,omitempty"`
	ObsRe    string `json:"obs_re,omitempty"` // regexp over the observation bytes (as a Latin-1 string)
	ParamRe  string `json:"param_re,omitempty"`
	Rel      string `json:"rel,omitempty"`   // named relation between observations, see relHolds
	Fixed    string `json:"fixed,omitempty"` // "fixed: property=<id> <commit> <what failed>": matches nothing
}

func loadKnown() ([]KnownFinding, error) {
	b, err := os.ReadFile(filepath.Join(VerifDir, "known_findings.json"))
	if os.IsNotExist(err) {
		return nil, nil
	}
	if err != nil {
		return nil, err
	}
	var f struct {
		Findings []KnownFinding `json:"findings"`
	}
	if err := json.Unmarshal(b, &f); err != nil {
		return nil, fmt.Errorf("known_findings.json: %v", err)
	}
	return f.Findings, nil
}

func latin1(hexs string) string {
	b, _ := hex.DecodeString(hexs)
	r := make([]rune, len(b))
	for i, c := range b {
		r[i] = rune(c)
	}
	return string(r)
}

func (k *KnownFinding) matches(prop string, v *interp.Violation) bool {
	if k.Fixed != "" || k.Property != prop {
		return false
	}
	m := func(re, s string) bool {
		if re == "" {
			return true
		}
		ok, _ := regexp.MatchString(re, s)
		return ok
	}
	if k.Kind != "" && k.Kind != v.Kind {
		return false
	}
	if !m(k.MsgRe, v.Msg) || !m(k.EntryRe, v.Entry) || !m(k.StackRe, strings.Join(v.Stack, "\n")) {
		return false
	}
	if k.ParamRe != "" {
		ps, _ := json.Marshal(v.Param)
		if !m(k.ParamRe, string(ps)) {
			return false
		}
	}
	if k.Rel != "" && !relHolds(k.Rel, v.Obs) {
		return false
	}
	if k.ObsRe != "" {
		name := k.ObsName
		if name == "" {
			name = "src"
		}
		if !m(k.ObsRe, latin1(v.Obs[name])) {
			return false
		}
	}
	return true
}

// relHolds evaluates a named relation over the concrete observations of a counterexample.
func relHolds(rel string, obs map[string]string) bool {
	get := func(n string) string { b, _ := hex.DecodeString(obs[n]); return string(b) }
	switch rel {
	case "with==without modulo LF":
		a, b := get("with"), get("without")
		return a != b && strings.ReplaceAll(a, "\n", "") == strings.ReplaceAll(b, "\n", "")
	}
	return false
}

type violRec struct {
	interp.Violation
	Confirmed string `json:"native"` // reproduced | not-replayable(monitor) | MISMATCH:<native outcome>
	Known     string `json:"known,omitempty"`
	File      string `json:"-"`
}

func violKey(v *interp.Violation) string {
	top := ""
	if len(v.Stack) > 0 {
		top = v.Stack[0]
	}
	// relational harnesses share one assertion site: keep the extension / variant under test in the key
	return v.Kind + "|" + v.Msg + "|" + top + "|" + v.Entry + "|" + v.Param["ext"] + "|" + v.Param["variant"]
}

func CheckMain(args []string) int {
	if len(args) < 1 {
		fmt.Fprintln(os.Stderr, "usage: gosym check <ID> [--tier quick|thorough]")
		return 2
	}
	id := args[0]
	tier := os.Getenv("VERIF_TIER")
	for i := 1; i < len(args); i++ {
		if args[i] == "--tier" && i+1 < len(args) {
			tier = args[i+1]
			i++
		} else if strings.HasPrefix(args[i], "--tier=") {
			tier = strings.TrimPrefix(args[i], "--tier=")
		}
	}
	if tier != "thorough" {
		tier = "quick"
	}
	seed := int64(1)
	if s := os.Getenv("VERIF_SEED"); s != "" {
		if n, err := strconv.ParseInt(s, 10, 64); err == nil {
			seed = n
		}
	}
	mk, ok := Plans[id]
	if !ok {
		fmt.Fprintf(os.Stderr, "no check registered for %s\n", id)
		return 2
	}
	t0 := time.Now()
	plan, err := mk(tier, seed)
	if err != nil {
		fmt.Fprintf(os.Stderr, "CHECK-BROKEN %s: building plan: %v\n", id, err)
		return 3
	}
	plan.Property, plan.Tier, plan.Seed = id, tier, seed
	defer CleanupReplay()

	// build the native replay binary while the exploration runs
	buildErr := make(chan error, 1)
	go func() { _, e := BuildReplay(); buildErr <- e }()

	if plan.TimeCap == 0 {
		plan.TimeCap = 280 * time.Second
		if tier == "thorough" {
			plan.TimeCap = 40 * time.Minute
		}
	}
	if s := os.Getenv("GOSYM_TIMECAP_S"); s != "" {
		if n, err := strconv.Atoi(s); err == nil {
			plan.TimeCap = time.Duration(n) * time.Second
		}
	}
	if plan.SampleEvery == 0 {
		plan.SampleEvery = 7
	}
	if plan.MaxSamples == 0 {
		plan.MaxSamples = 3
	}
	opts := poolOpts{Workers: plan.Workers, ChunkSize: plan.ChunkSize, Deadline: t0.Add(plan.TimeCap), Budget: plan.Budget,
		SampleEvery: plan.SampleEvery, MaxSamples: plan.MaxSamples}
	// concrete validation jobs ride along in the same pool
	all := append([]interp.Job{}, plan.Jobs...)
	nSym := len(all)
	for _, c := range plan.Concrete {
		c.IsConcrete = true
		all = append(all, c)
	}
	_ = nSym
	agg, err := runJobs(all, opts)
	if err != nil {
		fmt.Fprintf(os.Stderr, "CHECK-BROKEN %s: %v\n", id, err)
		return 3
	}
	if e := <-buildErr; e != nil {
		fmt.Fprintf(os.Stderr, "CHECK-BROKEN %s: %v\n", id, e)
		return 3
	}
	broken := false
	for _, e := range agg.EngineErrs {
		fmt.Printf("ENGINE-ERROR: %s\n", e)
		broken = true
	}

	// ---- translator validation: sampled paths re-run natively must agree byte for byte ----
	validated, mismatches := 0, 0
	{
		var cases []ReplayCase
		for _, s := range agg.Samples {
			cases = append(cases, ReplayCase{Entry: s.Entry, Params: s.Params, Model: s.Model})
		}
		if len(cases) > 0 {
			outs, err := RunReplay(cases, 10*time.Second)
			if err != nil {
				fmt.Fprintf(os.Stderr, "CHECK-BROKEN %s: native validation: %v\n", id, err)
				return 3
			}
			for i, o := range outs {
				s := agg.Samples[i]
				okOutcome := (s.Outcome == "ok" && o.Outcome == "ok") ||
					(s.Outcome == "panic" && strings.HasPrefix(o.Outcome, "panic")) ||
					(s.Outcome == "assert-stop" && strings.HasPrefix(o.Outcome, "assert")) ||
					(s.Outcome == "ok" && strings.HasPrefix(o.Outcome, "assert")) || // engine continues past a violated assertion
					(s.Outcome == "budget")
				same := okOutcome
				if same {
					for k, v := range s.Obs {
						if nv, ok := o.Obs[k]; ok && nv != v {
							same = false
						}
					}
				}
				if same {
					validated++
				} else {
					mismatches++
					if mismatches <= 5 {
						fmt.Printf("ENGINE-MISMATCH: %s %v model=%v engine(%s)=%v native(%s)=%v\n", s.Entry, s.Params, s.Model, s.Outcome, s.Obs, o.Outcome, o.Obs)
					}
				}
			}
		}
		if mismatches > 0 {
			broken = true
		}
	}

	// ---- counterexamples: replay natively, match known findings ----
	known, err := loadKnown()
	if err != nil {
		fmt.Fprintf(os.Stderr, "CHECK-BROKEN %s: %v\n", id, err)
		return 3
	}
	// dedupe by site, keep up to 3 instances each, known-matching computed on all
	byKey := map[string][]*interp.Violation{}
	var keys []string
	for i := range agg.Violations {
		v := &agg.Violations[i]
		k := violKey(v)
		if _, ok := byKey[k]; !ok {
			keys = append(keys, k)
		}
		byKey[k] = append(byKey[k], v)
	}
	sort.Strings(keys)
	var recs []*violRec
	var toReplay []ReplayCase
	var replayIdx []int
	for _, k := range keys {
		vs := byKey[k]
		// prefer instances that match no known finding, so that a new violation is never hidden
		sort.SliceStable(vs, func(a, b int) bool {
			return matchKnown(known, id, vs[a]) == "" && matchKnown(known, id, vs[b]) != ""
		})
		// spread the instances replayed over different jobs, self-contained histories first: when the code under
		// test keeps state across conversions, a counterexample of a job without a history depends on what the same
		// worker explored before and cannot reproduce in a fresh process, while one from a history job can
		sort.SliceStable(vs, func(a, b int) bool {
			ha := vs[a].Param["hist"] != "" || vs[a].Param["histdoc"] != "" || vs[a].Param["symhist"] != ""
			hb := vs[b].Param["hist"] != "" || vs[b].Param["histdoc"] != "" || vs[b].Param["symhist"] != ""
			return ha && !hb
		})
		perJob := map[string]int{}
		sort.SliceStable(vs, func(a, b int) bool {
			return false // keep order; the per-job cap below does the spreading
		})
		kept := 0
		seenKnown := map[string]bool{}
		for _, v := range vs {
			jk := fmt.Sprint(v.Param)
			if matchKnown(known, id, v) == "" && perJob[jk] >= 2 {
				continue
			}
			perJob[jk]++
			kn := matchKnown(known, id, v)
			if kn != "" {
				if seenKnown[kn] {
					continue
				}
				seenKnown[kn] = true
			} else {
				if kept >= 6 {
					continue
				}
				kept++
			}
			r := &violRec{Violation: *v, Known: kn}
			recs = append(recs, r)
			if v.Kind == "monitor" {
				r.Confirmed = "not-replayable(monitor)"
				continue
			}
			toReplay = append(toReplay, ReplayCase{Entry: v.Entry, Params: v.Param, Model: v.Model})
			replayIdx = append(replayIdx, len(recs)-1)
		}
	}
	if len(toReplay) > 0 {
		outs, err := RunReplay(toReplay, 20*time.Second)
		if err != nil {
			fmt.Fprintf(os.Stderr, "CHECK-BROKEN %s: native replay: %v\n", id, err)
			return 3
		}
		for i, o := range outs {
			r := recs[replayIdx[i]]
			okc := false
			switch r.Kind {
			case "panic":
				okc = strings.HasPrefix(o.Outcome, "panic") || strings.HasPrefix(o.Outcome, "crash")
			case "assert":
				okc = o.Outcome == "assert "+r.Msg
			case "budget":
				okc = o.Outcome == "timeout"
			}
			if okc {
				r.Confirmed = "reproduced"
			} else {
				r.Confirmed = "MISMATCH:" + o.Outcome
			}
		}
	}
	nViol, nKnown := 0, 0
	printedKnown := map[string]bool{}
	os.MkdirAll(filepath.Join(VerifDir, "replays", id), 0755)
	var lines []string
	for _, r := range recs {
		if strings.HasPrefix(r.Confirmed, "MISMATCH") {
			if r.Kind == "budget" {
				// an interpreter-budget hit that terminates natively is not a hang: bound not completed
				agg.Incomplete = appendUniq(agg.Incomplete, "instruction budget hit on a path that terminates natively ("+r.Msg+")")
				continue
			}
			fmt.Printf("ENGINE-MISMATCH: counterexample does not reproduce natively: %s %s model=%v native=%s\n", r.Kind, r.Msg, r.Model, r.Confirmed)
			broken = true
			continue
		}
		if r.Known != "" {
			nKnown++
			if !printedKnown[r.Known] {
				printedKnown[r.Known] = true
				lines = append(lines, fmt.Sprintf("KNOWN-FINDING: property=%s %s", id, r.Known))
			}
			continue
		}
		nViol++
		b, _ := json.MarshalIndent(map[string]interface{}{"property": id, "entry": r.Entry, "params": r.Param, "model": r.Model,
			"kind": r.Kind, "msg": r.Msg, "stack": r.Stack, "obs": r.Obs, "native": r.Confirmed}, "", " ")
		h := sha1.Sum(b)
		r.File = filepath.Join(VerifDir, "replays", id, hex.EncodeToString(h[:6])+".json")
		os.WriteFile(r.File, b, 0644)
		lines = append(lines, fmt.Sprintf("VIOLATION property=%s replay=%s", id, r.File))
		fmt.Printf("  %s: %s\n    input: %s\n    at: %s\n", r.Kind, r.Msg, describeObs(r.Obs), strings.Join(firstN(r.Stack, 4), " <- "))
	}
	for _, l := range lines {
		fmt.Println(l)
	}

	// ---- vacuity ----
	for _, tag := range plan.MustReach {
		if agg.Stats.Reach[tag] == 0 {
			fmt.Printf("VACUOUS: no path reached %q\n", tag)
			broken = true
		}
	}
	complete := len(agg.Incomplete) == 0 && agg.Leftover == 0
	for _, s := range agg.Incomplete {
		fmt.Printf("INCOMPLETE: %s\n", s)
	}

	wall := time.Since(t0).Seconds()
	if err := writeEvidence(plan, agg, recs, validated, mismatches, nViol, nKnown, complete, wall, broken); err != nil {
		fmt.Fprintf(os.Stderr, "CHECK-BROKEN %s: writing evidence: %v\n", id, err)
		return 3
	}
	fmt.Printf("%s %s: paths=%d decisions=%d queries(sat=%d unsat=%d unknown=%d prefilter=%d) validated=%d violations=%d known=%d complete=%v solver=%.1fs wall=%.1fs\n",
		id, tier, agg.Stats.Paths, agg.Stats.Decisions, agg.Stats.Sat, agg.Stats.Unsat, agg.Stats.Unknown, agg.Stats.Prefilter, validated, nViol, nKnown, complete,
		float64(agg.Stats.SolverNs)/1e9, wall)
	if nViol > 0 {
		// a natively confirmed (or monitor) violation stands even if other parts of the run were inconclusive
		if broken {
			fmt.Printf("NOTE %s: parts of this run were inconclusive (engine errors above); the violations reported were confirmed independently\n", id)
		}
		return 1
	}
	if broken {
		fmt.Printf("CHECK-BROKEN %s\n", id)
		return 3
	}
	return 0
}

func matchKnown(known []KnownFinding, prop string, v *interp.Violation) string {
	for i := range known {
		if known[i].matches(prop, v) {
			return known[i].ID + ": " + known[i].Desc
		}
	}
	return ""
}

func firstN(s []string, n int) []string {
	if len(s) > n {
		return s[:n]
	}
	return s
}

func describeObs(obs map[string]string) string {
	var ks []string
	for k := range obs {
		ks = append(ks, k)
	}
	sort.Strings(ks)
	var parts []string
	for _, k := range ks {
		b, _ := hex.DecodeString(obs[k])
		if len(b) > 120 {
			b = b[:120]
		}
		parts = append(parts, fmt.Sprintf("%s=%q", k, string(b)))
	}
	return strings.Join(parts, " ")
}

// ReplayMain re-runs a stored counterexample natively: exit 1 if it reproduces.
func ReplayMain(args []string) int {
	if len(args) < 1 {
		fmt.Fprintln(os.Stderr, "usage: gosym replay <file>")
		return 2
	}
	b, err := os.ReadFile(args[0])
	if err != nil {
		fmt.Fprintln(os.Stderr, err)
		return 2
	}
	var r struct {
		Entry  string            `json:"entry"`
		Params map[string]string `json:"params"`
		Model  map[string]uint64 `json:"model"`
		Kind   string            `json:"kind"`
		Msg    string            `json:"msg"`
	}
	if err := json.Unmarshal(b, &r); err != nil {
		fmt.Fprintln(os.Stderr, err)
		return 2
	}
	defer CleanupReplay()
	outs, err := RunReplay([]ReplayCase{{Entry: r.Entry, Params: r.Params, Model: r.Model}}, 30*time.Second)
	if err != nil {
		fmt.Fprintln(os.Stderr, err)
		return 2
	}
	fmt.Print(outs[0].Raw)
	if outs[0].Outcome != "ok" && outs[0].Outcome != "assume-failed" {
		fmt.Printf("REPRODUCED: %s\n", outs[0].Outcome)
		return 1
	}
	if r.Kind == "monitor" {
		fmt.Println("monitor violations (attempted writes) are only observable in the interpreter; re-run the check to reproduce")
	}
	return 0
}
