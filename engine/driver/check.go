package driver

func CheckMain(args []string) int  { return 2 }
func ReplayMain(args []string) int { return 2 }
