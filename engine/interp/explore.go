package interp

// Path exploration by decision-prefix re-execution.

import (
	"fmt"
	"go/types"
	"os"
	"runtime/debug"
	"sort"
	"strings"
	"time"

	"golang.org/x/tools/go/ssa"
)

type Decision struct {
	K uint8  `json:"k"`           // 0 branch, 1 pick/concretise
	T bool   `json:"t"`           // taken
	V uint64 `json:"v,omitempty"` // candidate / value for K=1
	H uint64 `json:"h"`           // structural hash of the condition (determinism check)
}

type WorkItem struct {
	Prefix []Decision        `json:"p"`
	Model  map[string]uint64 `json:"m"`
}

type Violation struct {
	Kind  string            `json:"kind"` // panic | assert | budget | monitor | error
	Msg   string            `json:"msg"`
	Model map[string]uint64 `json:"model"`
	Stack []string          `json:"stack,omitempty"`
	Obs   map[string]string `json:"obs,omitempty"` // hex, evaluated under Model
	Entry string            `json:"entry"`
	Param map[string]string `json:"params,omitempty"`
}

type Sample struct {
	Model   map[string]uint64 `json:"model"`
	Obs     map[string]string `json:"obs"`
	Outcome string            `json:"outcome"`
}

type Stats struct {
	Paths            int            `json:"paths"`
	Infeasible       int            `json:"infeasible"`
	Decisions        int            `json:"decisions"`
	Forced           int            `json:"forced"`
	Sat              int            `json:"sat"`
	Unsat            int            `json:"unsat"`
	Unknown          int            `json:"unknown"`
	Cached           int            `json:"cached"`
	Prefilter        int            `json:"prefilter"`
	PrefilterChecked int            `json:"prefilter_checked"`
	Asserts          int            `json:"asserts"`
	SolverNs         int64          `json:"solver_ns"`
	InterpNs         int64          `json:"interp_ns"`
	Instrs           int64          `json:"instrs"`
	Reach            map[string]int `json:"reach,omitempty"`
	Sites            map[string]int `json:"sites,omitempty"`
	Funcs            map[string]int `json:"funcs,omitempty"`
	MaxDepth         int            `json:"max_depth"`
}

type Job struct {
	ID          int               `json:"id"`
	Entry       string            `json:"entry"`
	Params      map[string]string `json:"params,omitempty"`
	Items       []WorkItem        `json:"items,omitempty"`
	MaxPaths    int               `json:"max_paths,omitempty"`
	InstrBudget int64             `json:"instr_budget,omitempty"`
	SampleEvery int               `json:"sample_every,omitempty"`
	MaxSamples  int               `json:"max_samples,omitempty"`
	Concrete    map[string]uint64 `json:"concrete,omitempty"` // concrete run: inputs take these values, no solver
	IsConcrete  bool              `json:"is_concrete,omitempty"`
}

type Result struct {
	ID         int         `json:"id"`
	Stats      Stats       `json:"stats"`
	Leftover   []WorkItem  `json:"leftover,omitempty"`
	Violations []Violation `json:"violations,omitempty"`
	Samples    []Sample    `json:"samples,omitempty"`
	EngineErrs []string    `json:"engine_errs,omitempty"`
	Incomplete []string    `json:"incomplete,omitempty"`
	WallNs     int64       `json:"wall_ns"`
}

// engineAbort is a Go panic used for engine control flow; never visible to the target's recover().
type engineAbort struct {
	kind string // infeasible | budget | engine | unsupported | done
	msg  string
}

func (e engineAbort) Error() string { return e.kind + ": " + e.msg }

type obsRec struct {
	name  string
	cells []value
}

type xstate struct {
	Z   *solver
	job *Job
	st  Stats
	res *Result

	prefix  []Decision
	pos     int
	dec     []Decision
	pc      []*expr
	model   map[string]uint64
	vars    []*expr
	varSet  map[string]bool
	decided map[*expr]bool
	work    []WorkItem

	instrs            int64
	budget            int64
	nameCount         map[string]int
	obs               []obsRec
	cur               *frame
	qkind             string
	dom               domState
	pending           []pendingAssert
	panicStack        []string
	pathsSinceRestart int
	active            bool // inside a symbolic path
	concrete          bool
	violKeys          map[string]bool
}

var X = &xstate{}
var CheckModel = os.Getenv("GOSYM_CHECKMODEL") != ""
var HostStack = os.Getenv("GOSYM_HOSTSTACK") != ""
var qkindStats map[string]int

func EnableQueryStats() map[string]int { qkindStats = map[string]int{}; return qkindStats }

func (x *xstate) engineErr(msg string) {
	if x.res == nil {
		return
	}
	for _, e := range x.res.EngineErrs {
		if e == msg {
			return
		}
	}
	if len(x.res.EngineErrs) < 50 {
		x.res.EngineErrs = append(x.res.EngineErrs, msg)
	}
}

func (x *xstate) incomplete(msg string) {
	for _, e := range x.res.Incomplete {
		if e == msg {
			return
		}
	}
	if len(x.res.Incomplete) < 50 {
		x.res.Incomplete = append(x.res.Incomplete, msg)
	}
}

func unsupported(format string, a ...interface{}) {
	panic(engineAbort{kind: "unsupported", msg: fmt.Sprintf(format, a...) + " at " + strings.Join(X.stack(3), " <- ")})
}

// ---------- symbolic Go scalar ----------

type sym struct {
	e *expr
	k types.BasicKind
}

func kindWidth(k types.BasicKind) (int, bool) { // width, signed
	switch k {
	case types.Bool, types.UntypedBool:
		return 0, false
	case types.Int8:
		return 8, true
	case types.Int16:
		return 16, true
	case types.Int32, types.UntypedRune:
		return 32, true
	case types.Int, types.Int64, types.UntypedInt:
		return 64, true
	case types.Uint8:
		return 8, false
	case types.Uint16:
		return 16, false
	case types.Uint32:
		return 32, false
	case types.Uint, types.Uint64, types.Uintptr:
		return 64, false
	}
	panic(fmt.Sprintf("kindWidth %v", k))
}

func valKind(v value) (types.BasicKind, uint64, bool) {
	switch x := v.(type) {
	case bool:
		if x {
			return types.Bool, 1, true
		}
		return types.Bool, 0, true
	case int:
		return types.Int, uint64(x), true
	case int8:
		return types.Int8, uint64(x), true
	case int16:
		return types.Int16, uint64(x), true
	case int32:
		return types.Int32, uint64(x), true
	case int64:
		return types.Int64, uint64(x), true
	case uint:
		return types.Uint, uint64(x), true
	case uint8:
		return types.Uint8, uint64(x), true
	case uint16:
		return types.Uint16, uint64(x), true
	case uint32:
		return types.Uint32, uint64(x), true
	case uint64:
		return types.Uint64, x, true
	case uintptr:
		return types.Uintptr, uint64(x), true
	}
	return 0, 0, false
}

func mkVal(k types.BasicKind, c uint64) value {
	switch k {
	case types.Bool:
		return c != 0
	case types.Int:
		return int(c)
	case types.Int8:
		return int8(c)
	case types.Int16:
		return int16(c)
	case types.Int32:
		return int32(c)
	case types.Int64:
		return int64(c)
	case types.Uint:
		return uint(c)
	case types.Uint8:
		return uint8(c)
	case types.Uint16:
		return uint16(c)
	case types.Uint32:
		return uint32(c)
	case types.Uint64:
		return c
	case types.Uintptr:
		return uintptr(c)
	}
	panic("mkVal")
}

// toExpr converts a concrete-or-symbolic scalar to a term.
func toExpr(v value) (*expr, types.BasicKind, bool) {
	if s, ok := v.(*sym); ok {
		return s.e, s.k, true
	}
	k, c, ok := valKind(v)
	if !ok {
		return nil, 0, false
	}
	if k == types.Bool {
		return kbool(c != 0), k, true
	}
	w, _ := kindWidth(k)
	return konst(w, c), k, true
}

func wrap(e *expr, k types.BasicKind) value {
	if isConst(e) {
		w, sg := kindWidth(k)
		if sg && w > 0 {
			return mkVal(k, uint64(sext64(e.c, w)))
		}
		return mkVal(k, e.c)
	}
	return &sym{e, k}
}

func isSym(v value) bool { _, ok := v.(*sym); return ok }

// evalVal gives the concrete value of v under model m.
func evalVal(v value, m map[string]uint64) value {
	if s, ok := v.(*sym); ok {
		c := eval(s.e, m)
		w, sg := kindWidth(s.k)
		if sg && w > 0 {
			c = uint64(sext64(c, w))
		}
		return mkVal(s.k, c)
	}
	return v
}

// ---------- variables ----------

func (x *xstate) newVar(name string, k types.BasicKind) value {
	n := x.nameCount[name]
	x.nameCount[name] = n + 1
	if n > 0 {
		name = fmt.Sprintf("%s~%d", name, n)
	}
	if x.concrete {
		c := x.job.Concrete[name]
		w, sg := kindWidth(k)
		if sg && w > 0 {
			c = uint64(sext64(c, w))
		}
		return mkVal(k, c)
	}
	w, _ := kindWidth(k)
	e := mk("var", w, 0, name)
	if !x.varSet[name] {
		x.varSet[name] = true
		x.vars = append(x.vars, e)
	}
	return &sym{e, k}
}

// ---------- queries ----------

// fastFeasible decides pc ∧ c by exact single-byte domain reasoning when it can.
func (x *xstate) fastFeasible(c *expr) (satResult, map[string]uint64, bool) {
	vi := exprVars(c)
	if vi.single == nil {
		return 0, nil, false
	}
	v := vi.single
	dom := x.dom.get(v)
	yes := dom.and(truthBits(c))
	if yes.empty() {
		if dom.empty() {
			return 0, nil, false
		}
		return resUnsat, nil, true
	}
	if x.dom.shared[v] {
		return 0, nil, false
	}
	m := make(map[string]uint64, len(x.model)+1)
	for k, val := range x.model {
		m[k] = val
	}
	if cur := int(x.model[v.name] & 0xff); !yes.has(cur) {
		m[v.name] = uint64(yes.first())
	}
	return resSat, m, true
}

func (x *xstate) feasible(c *expr) (satResult, map[string]uint64) {
	if r, m, ok := x.fastFeasible(c); ok {
		x.st.Prefilter++
		if x.st.Prefilter%64 == 1 {
			// cross-check the pre-filter against the solver on a sample of queries
			x.st.PrefilterChecked++
			r2, _ := x.Z.check(c, x.vars)
			if r2 != resUnknown && r2 != r {
				x.engineErr("domain pre-filter disagrees with the solver")
			}
		}
		return r, m
	}
	if qkindStats != nil {
		vi := exprVars(c)
		k := ""
		switch {
		case vi.single != nil && x.dom.shared[vi.single]:
			k += "/single-shared"
		case vi.single != nil:
			k += "/single"
		default:
			k += fmt.Sprintf("/multi%d", len(vi.multi))
		}
		qkindStats[k]++
	}
	r, m := x.Z.check(c, x.vars)
	switch r {
	case resSat:
		x.st.Sat++
	case resUnsat:
		x.st.Unsat++
	default:
		x.st.Unknown++
		x.incomplete("solver returned unknown for a feasibility query (side not explored)")
	}
	return r, m
}

func (x *xstate) assertPC(c *expr) {
	if CheckModel && eval(c, x.model) == 0 {
		x.engineErr(fmt.Sprintf("path model violates asserted condition %s at %v (pos %d/%d)", x.Z.ref(c), x.stack(3), x.pos, len(x.prefix)))
	}
	x.pc = append(x.pc, c)
	x.dom.note(c)
	x.Z.send("(assert " + x.Z.ref(c) + ")")
}

func (x *xstate) noteSite() {
	fr := x.cur
	if fr == nil || fr.fn == nil {
		return
	}
	if x.st.Sites == nil {
		x.st.Sites = map[string]int{}
		x.st.Funcs = map[string]int{}
	}
	x.st.Funcs[fr.fn.String()]++
	if fr.instr != nil {
		p := fr.instr.Pos()
		if ifi, ok := fr.instr.(*ssa.If); ok && !p.IsValid() {
			p = ifi.Cond.Pos()
			if bo, ok := ifi.Cond.(*ssa.BinOp); ok && !p.IsValid() {
				p = bo.X.Pos()
			}
		}
		if p.IsValid() {
			pos := fr.fn.Prog.Fset.Position(p)
			x.st.Sites[fmt.Sprintf("%s:%d", shortFile(pos.Filename), pos.Line)]++
			return
		}
	}
	x.st.Sites[fr.fn.String()]++
}

func shortFile(f string) string {
	if i := strings.Index(f, "/repo/"); i >= 0 {
		return f[i+6:]
	}
	if i := strings.Index(f, "/src/"); i >= 0 {
		return f[i+5:]
	}
	return f
}

func (x *xstate) checkReplay(d Decision, k uint8, h uint64) {
	if d.K != k || d.H != h {
		panic(engineAbort{kind: "engine", msg: fmt.Sprintf("non-deterministic re-execution at decision %d (recorded kind %d hash %x, now kind %d hash %x) at %s", x.pos, d.K, d.H, k, h, strings.Join(x.stack(4), " <- "))})
	}
}

// decide returns which way a symbolic boolean goes on this path, forking the other side if feasible.
func decide(c *expr) bool {
	x := X
	if isConst(c) {
		return c.c != 0
	}
	if v, ok := x.decided[c]; ok {
		x.st.Cached++
		return v
	}
	if c.op == "not" {
		if v, ok := x.decided[c.args[0]]; ok {
			x.st.Cached++
			return !v
		}
	}
	if !x.active {
		panic(engineAbort{kind: "engine", msg: "symbolic decision outside a path"})
	}
	var take bool
	if x.pos < len(x.prefix) {
		d := x.prefix[x.pos]
		x.checkReplay(d, 0, c.h)
		take = d.T
	} else {
		take = eval(c, x.model) != 0
		other := c
		if take {
			other = mknot(c)
		}
		r, m := x.feasible(other)
		if r == resSat {
			p := make([]Decision, len(x.dec)+1)
			copy(p, x.dec)
			p[len(x.dec)] = Decision{K: 0, T: !take, H: c.h}
			x.work = append(x.work, WorkItem{p, m})
		} else if r == resUnsat {
			x.st.Forced++
		}
		x.noteSite()
	}
	x.pos++
	x.st.Decisions++
	x.dec = append(x.dec, Decision{K: 0, T: take, H: c.h})
	x.decided[c] = take
	if take {
		x.assertPC(c)
	} else {
		x.assertPC(mknot(c))
	}
	return take
}

// pick chooses one of mutually exclusive candidate conditions (or -1 when none holds),
// forking over the feasible alternatives. The candidates need not be exhaustive.
func pick(cands []*expr) int {
	x := X
	// constant shortcuts
	allConst := true
	for i, c := range cands {
		if c == eTrue {
			return i
		}
		if c != eFalse {
			allConst = false
		}
	}
	if allConst {
		return -1
	}
	if !x.active {
		panic(engineAbort{kind: "engine", msg: "symbolic choice outside a path"})
	}
	excluded := make([]bool, len(cands)+1)
	none := len(cands)
	for {
		var k int
		var take bool
		replay := x.pos < len(x.prefix)
		if replay {
			d := x.prefix[x.pos]
			k = int(d.V)
			take = d.T
		} else {
			k = none
			for i, c := range cands {
				if !excluded[i] && c != eFalse && eval(c, x.model) != 0 {
					k = i
					break
				}
			}
			take = true
		}
		var cond *expr
		if k == none {
			var rest []*expr
			for i, c := range cands {
				if !excluded[i] {
					rest = append(rest, mknot(c))
				}
			}
			cond = mkand(rest...)
		} else {
			cond = cands[k]
		}
		if replay {
			x.checkReplay(x.prefix[x.pos], 1, cond.h)
		} else {
			r, m := x.feasible(mknot(cond))
			if r == resSat {
				p := make([]Decision, len(x.dec)+1)
				copy(p, x.dec)
				p[len(x.dec)] = Decision{K: 1, T: false, V: uint64(k), H: cond.h}
				x.work = append(x.work, WorkItem{p, m})
			} else if r == resUnsat {
				x.st.Forced++
			}
			x.noteSite()
		}
		x.pos++
		x.st.Decisions++
		x.dec = append(x.dec, Decision{K: 1, T: take, V: uint64(k), H: cond.h})
		if take {
			x.assertPC(cond)
			if k == none {
				return -1
			}
			return k
		}
		x.assertPC(mknot(cond))
		excluded[k] = true
	}
}

const maxConcretise = 1200

// concretize picks a concrete value for s, forking over the alternatives.
func concretize(s *sym) value {
	x := X
	if isConst(s.e) {
		return wrap(s.e, s.k)
	}
	w, _ := kindWidth(s.k)
	if w == 0 {
		return decide(s.e)
	}
	if !x.active {
		panic(engineAbort{kind: "engine", msg: "symbolic concretisation outside a path"})
	}
	n := 0
	for {
		n++
		if n > maxConcretise {
			panic(engineAbort{kind: "unsupported", msg: "concretisation fan-out exceeds " + fmt.Sprint(maxConcretise) + " at " + strings.Join(x.stack(4), " <- ")})
		}
		var v uint64
		var take bool
		replay := x.pos < len(x.prefix)
		if replay {
			v = x.prefix[x.pos].V
			take = x.prefix[x.pos].T
		} else {
			v = eval(s.e, x.model)
			take = true
		}
		c := mkop("=", 0, s.e, konst(w, v))
		if replay {
			x.checkReplay(x.prefix[x.pos], 1, c.h)
		} else {
			r, m := x.feasible(mknot(c))
			if r == resSat {
				p := make([]Decision, len(x.dec)+1)
				copy(p, x.dec)
				p[len(x.dec)] = Decision{K: 1, T: false, V: v, H: c.h}
				x.work = append(x.work, WorkItem{p, m})
			} else if r == resUnsat {
				x.st.Forced++
			}
			x.noteSite()
		}
		x.pos++
		x.st.Decisions++
		x.dec = append(x.dec, Decision{K: 1, T: take, V: v, H: c.h})
		if take {
			x.assertPC(c)
			return wrap(konst(w, v), s.k)
		}
		x.assertPC(mknot(c))
	}
}

func concretizeVal(v value) value {
	if s, ok := v.(*sym); ok {
		return concretize(s)
	}
	return v
}

// assume adds c to the path condition; an infeasible assumption ends the path silently.
func (x *xstate) assume(c *expr) {
	if c == eTrue {
		return
	}
	if len(x.pending) > 0 {
		x.flushAsserts()
	}
	if c == eFalse {
		panic(engineAbort{kind: "infeasible"})
	}
	if v, ok := x.decided[c]; ok {
		if !v {
			panic(engineAbort{kind: "infeasible"})
		}
		return
	}
	if eval(c, x.model) == 0 {
		r, m := x.feasible(c)
		if r != resSat {
			panic(engineAbort{kind: "infeasible"})
		}
		x.model = m
	}
	x.decided[c] = true
	x.assertPC(c)
}

func (x *xstate) evalObs(m map[string]uint64) map[string]string {
	out := map[string]string{}
	for _, o := range x.obs {
		b := make([]byte, len(o.cells))
		for i, c := range o.cells {
			v := evalVal(c, m)
			switch v := v.(type) {
			case byte:
				b[i] = v
			default:
				b[i] = '?'
			}
		}
		out[o.name] = fmt.Sprintf("%x", b)
	}
	return out
}

func (x *xstate) violation(kind, msg string, m map[string]uint64, stack []string) {
	key := kind + "|" + msg + "|" + strings.Join(stack, ";")
	if x.violKeys[key] && len(x.res.Violations) >= 8 {
		return // keep a few instances per distinct site, cap the rest
	}
	x.violKeys[key] = true
	if len(x.res.Violations) >= 400 {
		x.incomplete("more than 400 violations recorded; further ones dropped")
		return
	}
	mm := map[string]uint64{}
	for _, v := range x.vars {
		mm[v.name] = m[v.name] & maskB(v.w)
	}
	x.res.Violations = append(x.res.Violations, Violation{Kind: kind, Msg: msg, Model: mm, Stack: stack, Obs: x.evalObs(m), Entry: x.job.Entry, Param: x.job.Params})
}

type pendingAssert struct {
	c     *expr
	msg   string
	stack []string
}

// assert records the obligation pc ∧ ¬c. Obligations are discharged in batches
// (flushAsserts) at the next Assume and at the end of the path: every concrete input follows
// exactly one complete path, so checking against the final path condition loses nothing.
func (x *xstate) assert(c *expr, msg string) {
	x.st.Asserts++
	if c == eTrue {
		return
	}
	if v, ok := x.decided[c]; ok && v {
		return
	}
	if c == eFalse {
		x.flushAsserts()
		x.violation("assert", msg, x.model, x.stack(12))
		panic(engineAbort{kind: "done"})
	}
	x.pending = append(x.pending, pendingAssert{c, msg, x.stack(12)})
}

// flushAsserts discharges the pending obligations with as few queries as possible.
func (x *xstate) flushAsserts() {
	// obligations over one byte variable are discharged individually by the domain filter
	if len(x.pending) > 1 {
		keep := x.pending[:0]
		for _, p := range x.pending {
			if r, _, ok := x.fastFeasible(mknot(p.c)); ok && r == resUnsat {
				x.st.Prefilter++
				x.decided[p.c] = true
				continue
			}
			keep = append(keep, p)
		}
		x.pending = keep
	}
	for len(x.pending) > 0 {
		cs := make([]*expr, len(x.pending))
		for i, p := range x.pending {
			cs[i] = p.c
		}
		conj := mkand(cs...)
		r, m := x.feasible(mknot(conj))
		if r == resUnknown {
			x.incomplete("assertion query unknown: " + x.pending[0].msg)
		}
		if r != resSat {
			for _, p := range x.pending {
				x.decided[p.c] = true
			}
			x.pending = x.pending[:0]
			if conj != eTrue {
				x.assertPC(conj)
				if x.pos >= len(x.prefix) && eval(conj, x.model) == 0 {
					// cannot happen: conj is implied by the path condition the model satisfies
					x.engineErr("model violates an implied assertion")
				}
			}
			return
		}
		// find the violated obligation(s) under the counterexample
		k := -1
		for i, p := range x.pending {
			if eval(p.c, m) == 0 {
				k = i
				break
			}
		}
		if k < 0 {
			x.engineErr("solver model does not falsify any pending assertion")
			x.pending = x.pending[:0]
			return
		}
		p := x.pending[k]
		x.violation("assert", p.msg, m, p.stack)
		x.pending = append(x.pending[:k], x.pending[k+1:]...)
		// continue under p.c if possible
		if eval(p.c, x.model) == 0 {
			r2, m2 := x.feasible(p.c)
			if r2 != resSat {
				x.pending = x.pending[:0]
				panic(engineAbort{kind: "done"})
			}
			x.model = m2
		}
		x.decided[p.c] = true
		x.assertPC(p.c)
	}
}

func (x *xstate) stack(max int) []string {
	var out []string
	for fr := x.cur; fr != nil && len(out) < max; fr = fr.caller {
		s := fr.fn.String()
		if fr.instr != nil {
			if p := fr.instr.Pos(); p.IsValid() {
				pos := fr.fn.Prog.Fset.Position(p)
				s += fmt.Sprintf(" %s:%d", shortFile(pos.Filename), pos.Line)
			}
		}
		out = append(out, s)
	}
	return out
}

func panicText(p interface{}) string {
	switch p := p.(type) {
	case targetPanic:
		if itf, ok := p.v.(iface); ok {
			if s, ok := itf.v.(string); ok {
				return "panic: " + s
			}
			if itf.t != nil {
				return "panic: (" + itf.t.String() + ") " + toString(itf.v)
			}
		}
		return "panic: " + toString(p.v)
	case error:
		return "runtime error: " + strings.TrimPrefix(p.Error(), "runtime error: ")
	case string:
		return "panic: " + p
	}
	return fmt.Sprintf("panic: %T %v", p, p)
}

// RunJob explores (a chunk of) the execution tree of the entry function.
func (i *interpreter) RunJob(job *Job, fn *ssa.Function) *Result {
	x := X
	t0 := time.Now()
	res := &Result{ID: job.ID}
	x.job, x.res = job, res
	x.st = Stats{Reach: map[string]int{}}
	x.violKeys = map[string]bool{}
	x.budget = job.InstrBudget
	if x.budget == 0 {
		x.budget = 20_000_000
	}
	x.concrete = job.IsConcrete
	if x.concrete {
		x.work = []WorkItem{{nil, map[string]uint64{}}}
	} else if len(job.Items) > 0 {
		x.work = append([]WorkItem(nil), job.Items...)
	} else {
		x.work = []WorkItem{{nil, map[string]uint64{}}}
	}
	if !x.concrete && x.Z == nil {
		x.Z = newSolver()
	}
	for len(x.work) > 0 {
		if job.MaxPaths > 0 && x.st.Paths+x.st.Infeasible >= job.MaxPaths {
			break
		}
		it := x.work[len(x.work)-1]
		x.work = x.work[:len(x.work)-1]
		x.runPath(i, fn, it)
		if len(res.EngineErrs) > 0 {
			break
		}
	}
	res.Leftover = x.work
	x.work = nil
	x.st.InterpNs = time.Since(t0).Nanoseconds() - x.st.SolverNs
	res.Stats = x.st
	res.WallNs = time.Since(t0).Nanoseconds()
	return res
}

func (x *xstate) runPath(i *interpreter, fn *ssa.Function, it WorkItem) {
	if !x.concrete {
		x.pathsSinceRestart++
		if x.pathsSinceRestart > 1500 {
			x.Z.close()
			x.Z = newSolver()
			x.pathsSinceRestart = 0
		}
	}
	x.prefix, x.pos, x.dec, x.pc = it.Prefix, 0, x.dec[:0], x.pc[:0]
	x.model = it.Model
	if x.model == nil {
		x.model = map[string]uint64{}
	}
	x.decided = map[*expr]bool{}
	x.dom.reset()
	x.vars = x.vars[:0]
	x.varSet = map[string]bool{}
	x.nameCount = map[string]int{}
	x.obs = x.obs[:0]
	x.pending = x.pending[:0]
	x.instrs = 0
	x.cur = nil
	x.panicStack = nil
	x.active = true
	resetPathState()
	if !x.concrete {
		x.Z.send("(push)")
	}
	outcome := "ok"
	func() {
		defer func() {
			x.active = false
			r := recover()
			if r == nil {
				return
			}
			if ea, ok := r.(engineAbort); ok {
				switch ea.kind {
				case "infeasible":
					outcome = "infeasible"
				case "done":
					outcome = "assert-stop"
				case "budget":
					outcome = "budget"
					x.violation("budget", "instruction budget exceeded: "+ea.msg, x.model, x.stack(12))
					x.flushEnd()
				case "unsupported":
					outcome = "unsupported"
					x.engineErr("unsupported: " + ea.msg)
				default:
					outcome = "engine"
					x.engineErr(ea.kind + ": " + ea.msg)
				}
				return
			}
			outcome = "panic"
			if HostStack {
				fmt.Fprintf(os.Stderr, "HOST PANIC %v\n%s\n", r, debug.Stack())
			}
			st := x.panicStack
			if st == nil {
				st = x.stack(12)
			}
			x.violation("panic", panicText(r), x.model, st)
			x.flushEnd()
		}()
		call(i, nil, 0, fn, nil)
		x.active = true
		x.flushAsserts()
	}()
	x.st.Instrs += x.instrs
	if len(x.dec) > x.st.MaxDepth {
		x.st.MaxDepth = len(x.dec)
	}
	if outcome == "infeasible" {
		x.st.Infeasible++
	} else {
		x.st.Paths++
		j := x.job
		if j.SampleEvery > 0 && len(x.res.Samples) < j.MaxSamples && (x.st.Paths-1)%j.SampleEvery == 0 && outcome != "unsupported" && outcome != "engine" {
			mm := map[string]uint64{}
			for _, v := range x.vars {
				mm[v.name] = x.model[v.name] & maskB(v.w)
			}
			x.res.Samples = append(x.res.Samples, Sample{Model: mm, Obs: x.evalObs(x.model), Outcome: outcome})
		}
	}
	if !x.concrete {
		x.Z.send("(pop)")
	}
}

// flushEnd discharges pending obligations when a path ends abnormally.
func (x *xstate) flushEnd() {
	defer func() {
		if r := recover(); r != nil {
			if ea, ok := r.(engineAbort); ok && ea.kind == "done" {
				return
			}
			panic(r)
		}
	}()
	x.flushAsserts()
}

// sortedKeys is a helper for deterministic output.
func sortedKeys(m map[string]int) []string {
	var ks []string
	for k := range m {
		ks = append(ks, k)
	}
	sort.Strings(ks)
	return ks
}

func maskB(w int) uint64 {
	if w == 0 {
		return 1
	}
	return mask(w)
}
