package interp

// One persistent `z3 -in` child per worker process; push/pop per path and per query.

import (
	"bufio"
	"fmt"
	"io"
	"os"
	"os/exec"
	"strconv"
	"strings"
	"time"
)

type solver struct {
	cmd      *exec.Cmd
	in       *bufio.Writer
	inc      io.WriteCloser
	out      *bufio.Reader
	log      *os.File
	gen      int
	declared map[string]bool
	names    map[string]string // harness variable name/width -> SMT symbol
	nQueries int
}

var (
	solverGen   int
	SolverPath  = "z3"
	SolverArgs  = []string{"-in"}
	QueryTimeMs = 20000
	SMTLogPath  string
)

func newSolver() *solver {
	solverGen++
	cmd := exec.Command(SolverPath, SolverArgs...)
	in, _ := cmd.StdinPipe()
	out, _ := cmd.StdoutPipe()
	cmd.Stderr = os.Stderr
	if err := cmd.Start(); err != nil {
		panic(engineAbort{kind: "engine", msg: "cannot start solver: " + err.Error()})
	}
	s := &solver{cmd: cmd, inc: in, in: bufio.NewWriterSize(in, 1<<16), out: bufio.NewReaderSize(out, 1<<16), gen: solverGen, declared: map[string]bool{}, names: map[string]string{}}
	if SMTLogPath != "" {
		s.log, _ = os.OpenFile(SMTLogPath, os.O_CREATE|os.O_WRONLY|os.O_TRUNC, 0644)
	}
	s.send("(set-option :produce-models true)")
	s.send("(set-option :global-declarations true)")
	if strings.Contains(SolverPath, "z3") {
		s.send(fmt.Sprintf("(set-option :timeout %d)", QueryTimeMs))
	}
	s.send("(set-logic QF_BV)")
	return s
}

func (s *solver) close() {
	if s == nil {
		return
	}
	s.in.Flush()
	s.inc.Close()
	s.cmd.Wait()
	if s.log != nil {
		s.log.Close()
	}
}

func (s *solver) send(x string) {
	if s.log != nil {
		fmt.Fprintln(s.log, x)
	}
	s.in.WriteString(x)
	s.in.WriteByte('\n')
}

func (s *solver) line() string {
	s.in.Flush()
	l, err := s.out.ReadString('\n')
	if err != nil {
		panic(engineAbort{kind: "engine", msg: "solver died: " + err.Error()})
	}
	return strings.TrimSpace(l)
}

// smtName declares a variable on first use. Declarations persist for the life of the solver process
// (global-declarations), across jobs: when a later job uses the same harness variable name with another
// width (IntRange encodes small ranges in 8 bits), it gets its own SMT symbol.
func (s *solver) smtName(e *expr) string {
	key := fmt.Sprintf("%s/%d", e.name, e.w)
	if n, ok := s.names[key]; ok {
		return n
	}
	n := e.name
	if s.declared[n] {
		n = fmt.Sprintf("%s!w%d", e.name, e.w)
	}
	s.declared[n] = true
	s.names[key] = n
	s.send(fmt.Sprintf("(declare-const %s %s)", n, sortName(e.w)))
	return n
}

// ref returns SMT text for e, defining names for large shared sub-terms first.
func (s *solver) ref(e *expr) string {
	if e.gen == s.gen && e.smt != "" {
		return e.smt
	}
	var r string
	switch e.op {
	case "var":
		r = s.smtName(e)
	case "const":
		r = fmt.Sprintf("(_ bv%d %d)", e.c, e.w)
	case "true", "false":
		r = e.op
	case "zext":
		r = fmt.Sprintf("((_ zero_extend %d) %s)", e.w-e.args[0].w, s.ref(e.args[0]))
	case "sext":
		r = fmt.Sprintf("((_ sign_extend %d) %s)", e.w-e.args[0].w, s.ref(e.args[0]))
	case "trunc":
		r = fmt.Sprintf("((_ extract %d 0) %s)", e.w-1, s.ref(e.args[0]))
	default:
		var sb strings.Builder
		sb.WriteByte('(')
		sb.WriteString(e.op)
		for _, a := range e.args {
			sb.WriteByte(' ')
			sb.WriteString(s.ref(a))
		}
		sb.WriteByte(')')
		r = sb.String()
	}
	if len(r) > 160 {
		name := "t" + strconv.Itoa(e.id)
		s.send(fmt.Sprintf("(define-fun %s () %s %s)", name, sortName(e.w), r))
		r = name
	}
	e.smt = r
	e.gen = s.gen
	return r
}

type satResult int

const (
	resUnsat satResult = iota
	resSat
	resUnknown
)

// check asks whether the current assertion stack plus extra is satisfiable.
func (s *solver) check(extra *expr, vars []*expr) (satResult, map[string]uint64) {
	t0 := time.Now()
	s.nQueries++
	var ref string
	if extra != nil {
		ref = s.ref(extra)
	}
	for _, v := range vars {
		s.ref(v)
	}
	s.send("(push)")
	if extra != nil {
		s.send("(assert " + ref + ")")
	}
	s.send("(check-sat)")
	r := s.line()
	for strings.HasPrefix(r, "(error") {
		// an error line: inconclusive
		X.engineErr("solver error: " + r)
		s.send("(pop)")
		X.st.SolverNs += time.Since(t0).Nanoseconds()
		return resUnknown, nil
	}
	var m map[string]uint64
	var res satResult
	switch r {
	case "sat":
		res = resSat
		m = map[string]uint64{}
		if len(vars) > 0 {
			var sb strings.Builder
			sb.WriteString("(get-value (")
			for _, v := range vars {
				sb.WriteString(s.smtName(v))
				sb.WriteByte(' ')
			}
			sb.WriteString("))")
			s.send(sb.String())
			txt := ""
			depth := 0
			for {
				l := s.line()
				txt += l + " "
				depth += strings.Count(l, "(") - strings.Count(l, ")")
				if depth <= 0 {
					break
				}
			}
			if strings.Contains(txt, "(error") {
				X.engineErr("solver error: " + txt)
				s.send("(pop)")
				return resUnknown, nil
			}
			txt = strings.NewReplacer("(", " ", ")", " ").Replace(txt)
			f := strings.Fields(txt)
			for i := 0; i+1 < len(f); i += 2 {
				v := f[i+1]
				name := f[i]
				if k := strings.Index(name, "!w"); k > 0 {
					name = name[:k] // same harness variable declared earlier in this solver with another width
				}
				var n uint64
				switch {
				case strings.HasPrefix(v, "#x"):
					n, _ = strconv.ParseUint(v[2:], 16, 64)
				case strings.HasPrefix(v, "#b"):
					n, _ = strconv.ParseUint(v[2:], 2, 64)
				case v == "true":
					n = 1
				case v == "false":
					n = 0
				case v == "_": // (_ bvN w)
					if i+3 < len(f) && strings.HasPrefix(f[i+2], "bv") {
						n, _ = strconv.ParseUint(f[i+2][2:], 10, 64)
						i += 2
					}
				}
				m[name] = n
			}
		}
	case "unsat":
		res = resUnsat
	default:
		res = resUnknown
	}
	s.send("(pop)")
	X.st.SolverNs += time.Since(t0).Nanoseconds()
	return res, m
}
