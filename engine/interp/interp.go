// Copyright 2013 The Go Authors. All rights reserved.
// Use of this source code is governed by a BSD-style
// license that can be found in the LICENSE file.

// Package ssa/interp defines an interpreter for the SSA
// representation of Go programs.
//
// This interpreter is provided as an adjunct for testing the SSA
// construction algorithm.  Its purpose is to provide a minimal
// metacircular implementation of the dynamic semantics of each SSA
// instruction.  It is not, and will never be, a production-quality Go
// interpreter.
//
// The following is a partial list of Go features that are currently
// unsupported or incomplete in the interpreter.
//
// * Unsafe operations, including all uses of unsafe.Pointer, are
// impossible to support given the "boxed" value representation we
// have chosen.
//
// * The reflect package is only partially implemented.
//
// * The "testing" package is no longer supported because it
// depends on low-level details that change too often.
//
// * "sync/atomic" operations are not atomic due to the "boxed" value
// representation: it is not possible to read, modify and write an
// interface value atomically. As a consequence, Mutexes are currently
// broken.
//
// * recover is only partially implemented.  Also, the interpreter
// makes no attempt to distinguish target panics from interpreter
// crashes.
//
// * the sizes of the int, uint and uintptr types in the target
// program are assumed to be the same as those of the interpreter
// itself.
//
// * all values occupy space, even those of types defined by the spec
// to have zero size, e.g. struct{}.  This can cause asymptotic
// performance degradation.
//
// * os.Exit is implemented using panic, causing deferred functions to
// run.
package interp

import (
	"fmt"
	"go/token"
	"go/types"
	"log"
	"os"
	"reflect"
	"runtime"
	"runtime/debug"
	"slices"
	"sync/atomic"
	_ "unsafe"

	"golang.org/x/tools/go/ssa"
)

var SkipInit = func(string) bool { return false }

type continuation int

const (
	kNext continuation = iota
	kReturn
	kJump
)

// Mode is a bitmask of options affecting the interpreter.
type Mode uint

const (
	DisableRecover Mode = 1 << iota // Disable recover() in target programs; show interpreter crash instead.
	EnableTracing                   // Print a trace of all instructions as they are interpreted.
)

type methodSet map[string]*ssa.Function

// State shared between all interpreted goroutines.
type interpreter struct {
	osArgs             []value                // the value of os.Args
	prog               *ssa.Program           // the SSA program
	globals            map[*ssa.Global]*value // addresses of global variables (immutable)
	mode               Mode                   // interpreter options
	reflectPackage     *ssa.Package           // the fake reflect package
	errorMethods       methodSet              // the method set of reflect.error, which implements the error interface.
	rtypeMethods       methodSet              // the method set of rtype, which implements the reflect.Type interface.
	runtimeErrorString types.Type             // the runtime.errorString type
	sizes              types.Sizes            // the effective type-sizing function
	goroutines         int32                  // atomically updated
}

type deferred struct {
	fn    value
	args  []value
	instr *ssa.Defer
	tail  *deferred
}

type frame struct {
	i                *interpreter
	caller           *frame
	fn               *ssa.Function
	block, prevBlock *ssa.BasicBlock
	env              map[ssa.Value]value // dynamic values of SSA variables
	locals           []value
	defers           *deferred
	result           value
	panicking        bool
	panic            interface{}
	phitemps         []value         // temporaries for parallel phi assignment
	instr            ssa.Instruction // instruction being executed (for stacks)
}

func (fr *frame) get(key ssa.Value) value {
	switch key := key.(type) {
	case nil:
		// Hack; simplifies handling of optional attributes
		// such as ssa.Slice.{Low,High}.
		return nil
	case *ssa.Function, *ssa.Builtin:
		return key
	case *ssa.Const:
		return constValue(key)
	case *ssa.Global:
		if r, ok := fr.i.globals[key]; ok {
			return r
		}
	}
	if r, ok := fr.env[key]; ok {
		return r
	}
	panic(fmt.Sprintf("get: no value for %T: %v", key, key.Name()))
}

// runDefer runs a deferred call d.
// It always returns normally, but may set or clear fr.panic.
func (fr *frame) runDefer(d *deferred) {
	if fr.i.mode&EnableTracing != 0 {
		fmt.Fprintf(os.Stderr, "%s: invoking deferred function call\n",
			fr.i.prog.Fset.Position(d.instr.Pos()))
	}
	var ok bool
	defer func() {
		if !ok {
			// Deferred call created a new state of panic.
			r := recover()
			if ea, isAbort := r.(engineAbort); isAbort {
				panic(ea)
			}
			fr.panicking = true
			fr.panic = r
		}
	}()
	call(fr.i, fr, d.instr.Pos(), d.fn, d.args)
	ok = true
}

// runDefers executes fr's deferred function calls in LIFO order.
//
// On entry, fr.panicking indicates a state of panic; if
// true, fr.panic contains the panic value.
//
// On completion, if a deferred call started a panic, or if no
// deferred call recovered from a previous state of panic, then
// runDefers itself panics after the last deferred call has run.
//
// If there was no initial state of panic, or it was recovered from,
// runDefers returns normally.
func (fr *frame) runDefers() {
	for d := fr.defers; d != nil; d = d.tail {
		fr.runDefer(d)
	}
	fr.defers = nil
	if fr.panicking {
		panic(fr.panic) // new panic, or still panicking
	}
}

// lookupMethod returns the method set for type typ, which may be one
// of the interpreter's fake types.
type methKey struct {
	t types.Type
	m *types.Func
}

var methCache = map[methKey]*ssa.Function{}

func lookupMethod(i *interpreter, typ types.Type, meth *types.Func) *ssa.Function {
	k := methKey{typ, meth}
	if f, ok := methCache[k]; ok {
		return f
	}
	f := lookupMethod0(i, typ, meth)
	methCache[k] = f
	return f
}

func lookupMethod0(i *interpreter, typ types.Type, meth *types.Func) *ssa.Function {
	switch typ {
	case rtypeType:
		return i.rtypeMethods[meth.Id()]
	case errorType:
		return i.errorMethods[meth.Id()]
	}
	return i.prog.LookupMethod(typ, meth.Pkg(), meth.Name())
}

// visitInstr interprets a single ssa.Instruction within the activation
// record frame.  It returns a continuation value indicating where to
// read the next instruction from.
func visitInstr(fr *frame, instr ssa.Instruction) continuation {
	switch instr := instr.(type) {
	case *ssa.DebugRef:
		// no-op

	case *ssa.UnOp:
		fr.env[instr] = unop(instr, fr.get(instr.X))

	case *ssa.BinOp:
		fr.env[instr] = binop(instr.Op, instr.X.Type(), fr.get(instr.X), fr.get(instr.Y))

	case *ssa.Call:
		fn, args := prepareCall(fr, &instr.Call)
		fr.env[instr] = call(fr.i, fr, instr.Pos(), fn, args)

	case *ssa.ChangeInterface:
		fr.env[instr] = fr.get(instr.X)

	case *ssa.ChangeType:
		fr.env[instr] = fr.get(instr.X) // (can't fail)

	case *ssa.Convert:
		fr.env[instr] = conv(instr.Type(), instr.X.Type(), fr.get(instr.X))

	case *ssa.SliceToArrayPointer:
		fr.env[instr] = sliceToArrayPointer(instr.Type(), instr.X.Type(), fr.get(instr.X))

	case *ssa.MakeInterface:
		fr.env[instr] = iface{t: instr.X.Type(), v: fr.get(instr.X)}

	case *ssa.Extract:
		fr.env[instr] = fr.get(instr.Tuple).(tuple)[instr.Index]

	case *ssa.Slice:
		fr.env[instr] = slice(fr.get(instr.X), fr.get(instr.Low), fr.get(instr.High), fr.get(instr.Max))

	case *ssa.Return:
		switch len(instr.Results) {
		case 0:
		case 1:
			fr.result = fr.get(instr.Results[0])
		default:
			var res []value
			for _, r := range instr.Results {
				res = append(res, fr.get(r))
			}
			fr.result = tuple(res)
		}
		fr.block = nil
		return kReturn

	case *ssa.RunDefers:
		fr.runDefers()

	case *ssa.Panic:
		panic(targetPanic{fr.get(instr.X)})

	case *ssa.Send:
		fr.get(instr.Chan).(chan value) <- fr.get(instr.X)

	case *ssa.Store:
		addr := fr.get(instr.Addr)
		if r, ok := addr.(*symref); ok {
			k := concreteIndex(r.idx, len(r.cells))
			addr = &r.cells[k]
		}
		storeChecked(mustDeref(instr.Addr.Type()), addr.(*value), fr.get(instr.Val))

	case *ssa.If:
		succ := 1
		cv := fr.get(instr.Cond)
		if s, ok := cv.(*sym); ok {
			cv = decide(s.e)
		}
		if cv.(bool) {
			succ = 0
		}
		fr.prevBlock, fr.block = fr.block, fr.block.Succs[succ]
		return kJump

	case *ssa.Jump:
		fr.prevBlock, fr.block = fr.block, fr.block.Succs[0]
		return kJump

	case *ssa.Defer:
		fn, args := prepareCall(fr, &instr.Call)
		defers := &fr.defers
		if into := fr.get(instr.DeferStack); into != nil {
			defers = into.(**deferred)
		}
		*defers = &deferred{
			fn:    fn,
			args:  args,
			instr: instr,
			tail:  *defers,
		}

	case *ssa.Go:
		fn, args := prepareCall(fr, &instr.Call)
		atomic.AddInt32(&fr.i.goroutines, 1)
		go func() {
			call(fr.i, nil, instr.Pos(), fn, args)
			atomic.AddInt32(&fr.i.goroutines, -1)
		}()

	case *ssa.MakeChan:
		fr.env[instr] = make(chan value, asInt64(fr.get(instr.Size)))

	case *ssa.Alloc:
		var addr *value
		if instr.Heap {
			// new
			addr = new(value)
			fr.env[instr] = addr
		} else {
			// local
			addr = fr.env[instr].(*value)
		}
		*addr = zero(mustDeref(instr.Type()))

	case *ssa.MakeSlice:
		capV, lenV := fr.get(instr.Cap), fr.get(instr.Len)
		if s, ok := lenV.(*sym); ok {
			if !decide(mkop("bvule", 0, idx64(s), konst(64, 1<<24))) {
				runtimePanic("makeslice: len out of range")
			}
			same := capV == lenV
			lenV = concretize(s)
			if same {
				capV = lenV
			}
		}
		if s, ok := capV.(*sym); ok {
			if !decide(mkop("bvule", 0, idx64(s), konst(64, 1<<24))) {
				runtimePanic("makeslice: cap out of range")
			}
			capV = concretize(s)
		}
		if asInt64(lenV) < 0 {
			runtimePanic("makeslice: len out of range")
		}
		if asInt64(capV) < asInt64(lenV) {
			runtimePanic("makeslice: cap out of range")
		}
		slice := make([]value, asInt64(capV))
		tElt := instr.Type().Underlying().(*types.Slice).Elem()
		for i := range slice {
			slice[i] = zero(tElt)
		}
		fr.env[instr] = slice[:asInt64(lenV)]

	case *ssa.MakeMap:
		var reserve int64
		if instr.Reserve != nil {
			reserve = asInt64(fr.get(instr.Reserve))
		}
		if !fitsInt(reserve, fr.i.sizes) {
			panic(fmt.Sprintf("ssa.MakeMap.Reserve value %d does not fit in int", reserve))
		}
		fr.env[instr] = makeMap(instr.Type().Underlying().(*types.Map).Key(), reserve)

	case *ssa.Range:
		fr.env[instr] = rangeIter(fr.get(instr.X), instr.X.Type())

	case *ssa.Next:
		fr.env[instr] = fr.get(instr.Iter).(iter).next()

	case *ssa.FieldAddr:
		xv := fr.get(instr.X)
		if r, ok := xv.(*symref); ok {
			k := concreteIndex(r.idx, len(r.cells))
			xv = &r.cells[k]
		}
		fr.env[instr] = &(*xv.(*value)).(structure)[instr.Field]

	case *ssa.Field:
		fr.env[instr] = fr.get(instr.X).(structure)[instr.Field]

	case *ssa.IndexAddr:
		x := fr.get(instr.X)
		idx := fr.get(instr.Index)
		if si, ok := idx.(*sym); ok {
			var cells []value
			switch x := x.(type) {
			case []value:
				cells = x
			case *value:
				cells = (*x).(array)
			}
			if onlyLoaded(instr) {
				fr.env[instr] = &symref{cells, si}
			} else {
				k := concreteIndex(si, len(cells))
				fr.env[instr] = &cells[k]
			}
			break
		}
		switch x := x.(type) {
		case []value:
			fr.env[instr] = &x[asInt64(idx)]
		case *value: // *array
			fr.env[instr] = &(*x).(array)[asInt64(idx)]
		default:
			panic(fmt.Sprintf("unexpected x type in IndexAddr: %T", x))
		}

	case *ssa.Index:
		x := fr.get(instr.X)
		idx := fr.get(instr.Index)

		if si, ok := idx.(*sym); ok {
			switch x := x.(type) {
			case array:
				fr.env[instr] = loadIndexed(x, si)
			case string, sstr:
				fr.env[instr] = loadIndexed(strCells(x), si)
			}
			break
		}
		switch x := x.(type) {
		case array:
			fr.env[instr] = x[asInt64(idx)]
		case string:
			fr.env[instr] = x[asInt64(idx)]
		case sstr:
			fr.env[instr] = x.b[asInt64(idx)]
		default:
			panic(fmt.Sprintf("unexpected x type in Index: %T", x))
		}

	case *ssa.Lookup:
		fr.env[instr] = lookup(instr, fr.get(instr.X), fr.get(instr.Index))

	case *ssa.MapUpdate:
		m := fr.get(instr.Map)
		key := fr.get(instr.Key)
		v := fr.get(instr.Value)
		switch m := m.(type) {
		case *omap:
			checkMapStore(m)
			m.insert(key, v)
		default:
			panic(fmt.Sprintf("illegal map type: %T", m))
		}

	case *ssa.TypeAssert:
		fr.env[instr] = typeAssert(fr.i, instr, fr.get(instr.X).(iface))

	case *ssa.MakeClosure:
		var bindings []value
		for _, binding := range instr.Bindings {
			bindings = append(bindings, fr.get(binding))
		}
		fr.env[instr] = &closure{instr.Fn.(*ssa.Function), bindings}

	case *ssa.Phi:
		log.Fatal("unreachable") // phis are processed at block entry

	case *ssa.Select:
		var cases []reflect.SelectCase
		if !instr.Blocking {
			cases = append(cases, reflect.SelectCase{
				Dir: reflect.SelectDefault,
			})
		}
		for _, state := range instr.States {
			var dir reflect.SelectDir
			if state.Dir == types.RecvOnly {
				dir = reflect.SelectRecv
			} else {
				dir = reflect.SelectSend
			}
			var send reflect.Value
			if state.Send != nil {
				send = reflect.ValueOf(fr.get(state.Send))
			}
			cases = append(cases, reflect.SelectCase{
				Dir:  dir,
				Chan: reflect.ValueOf(fr.get(state.Chan)),
				Send: send,
			})
		}
		chosen, recv, recvOk := reflect.Select(cases)
		if !instr.Blocking {
			chosen-- // default case should have index -1.
		}
		r := tuple{chosen, recvOk}
		for i, st := range instr.States {
			if st.Dir == types.RecvOnly {
				var v value
				if i == chosen && recvOk {
					// No need to copy since send makes an unaliased copy.
					v = recv.Interface().(value)
				} else {
					v = zero(st.Chan.Type().Underlying().(*types.Chan).Elem())
				}
				r = append(r, v)
			}
		}
		fr.env[instr] = r

	default:
		panic(fmt.Sprintf("unexpected instruction: %T", instr))
	}

	// if val, ok := instr.(ssa.Value); ok {
	// 	fmt.Println(toString(fr.env[val])) // debugging
	// }

	return kNext
}

// prepareCall determines the function value and argument values for a
// function call in a Call, Go or Defer instruction, performing
// interface method lookup if needed.
func prepareCall(fr *frame, call *ssa.CallCommon) (fn value, args []value) {
	v := fr.get(call.Value)
	if call.Method == nil {
		// Function call.
		fn = v
	} else {
		// Interface method invocation.
		recv := v.(iface)
		if recv.t == nil {
			panic("method invoked on nil interface")
		}
		if f := lookupMethod(fr.i, recv.t, call.Method); f == nil {
			// Unreachable in well-typed programs.
			panic(fmt.Sprintf("method set for dynamic type %v does not contain %s", recv.t, call.Method))
		} else {
			fn = f
		}
		args = append(args, recv.v)
	}
	for _, arg := range call.Args {
		args = append(args, fr.get(arg))
	}
	return
}

// call interprets a call to a function (function, builtin or closure)
// fn with arguments args, returning its result.
// callpos is the position of the callsite.
func call(i *interpreter, caller *frame, callpos token.Pos, fn value, args []value) value {
	switch fn := fn.(type) {
	case *ssa.Function:
		if fn == nil {
			panic("call of nil function") // nil of func type
		}
		return callSSA(i, caller, callpos, fn, args, nil)
	case *closure:
		return callSSA(i, caller, callpos, fn.Fn, args, fn.Env)
	case *ssa.Builtin:
		return callBuiltin(caller, callpos, fn, args)
	}
	panic(fmt.Sprintf("cannot call %T", fn))
}

func loc(fset *token.FileSet, pos token.Pos) string {
	if pos == token.NoPos {
		return ""
	}
	return " at " + fset.Position(pos).String()
}

// callSSA interprets a call to function fn with arguments args,
// and lexical environment env, returning its result.
// callpos is the position of the callsite.
func callSSA(i *interpreter, caller *frame, callpos token.Pos, fn *ssa.Function, args []value, env []value) value {
	if i.mode&EnableTracing != 0 {
		fset := fn.Prog.Fset
		// TODO(adonovan): fix: loc() lies for external functions.
		fmt.Fprintf(os.Stderr, "Entering %s%s.\n", fn, loc(fset, fn.Pos()))
		suffix := ""
		if caller != nil {
			suffix = ", resuming " + caller.fn.String() + loc(fset, callpos)
		}
		defer fmt.Fprintf(os.Stderr, "Leaving %s%s.\n", fn, suffix)
	}
	fr := &frame{
		i:      i,
		caller: caller, // for panic/recover
		fn:     fn,
	}
	if fn.Parent() == nil {
		ext, known := extCache[fn]
		if !known {
			name := fn.String()
			ext = externals[name]
			if ext == nil && fn.Origin() != nil {
				ext = externals[fn.Origin().String()]
			}
			if fn.Name() == "init" && fn.Pkg != nil && SkipInit(fn.Pkg.Pkg.Path()) {
				ext = func(fr *frame, args []value) value { return nil }
			}
			extCache[fn] = ext
		}
		if ext != nil {
			fr.caller = caller
			return ext(fr, args)
		}
		if fn.Blocks == nil {
			panic(engineAbort{kind: "unsupported", msg: "no code for function: " + fn.String()})
		}
	}
	if X.active {
		X.cur = fr
		if fnCount != nil {
			fnCount[fn]++
		}
	}

	// generic function body?
	if fn.TypeParams().Len() > 0 && len(fn.TypeArgs()) == 0 {
		panic("interp requires ssa.BuilderMode to include InstantiateGenerics to execute generics")
	}

	if n := len(envPool); n > 0 {
		fr.env = envPool[n-1]
		envPool = envPool[:n-1]
	} else {
		fr.env = make(map[ssa.Value]value)
	}
	fr.block = fn.Blocks[0]
	fr.locals = make([]value, len(fn.Locals))
	for i, l := range fn.Locals {
		fr.locals[i] = zero(mustDeref(l.Type()))
		fr.env[l] = &fr.locals[i]
	}
	for i, p := range fn.Params {
		fr.env[p] = args[i]
	}
	for i, fv := range fn.FreeVars {
		fr.env[fv] = env[i]
	}
	for fr.block != nil {
		runFrame(fr)
	}
	// Destroy the locals to avoid accidental use after return.
	for i := range fn.Locals {
		fr.locals[i] = bad{}
	}
	if X.active {
		X.cur = caller
	}
	if len(fr.env) <= 64 && len(envPool) < 256 {
		clear(fr.env)
		envPool = append(envPool, fr.env)
	}
	fr.env = nil
	return fr.result
}

// runFrame executes SSA instructions starting at fr.block and
// continuing until a return, a panic, or a recovered panic.
//
// After a panic, runFrame panics.
//
// After a normal return, fr.result contains the result of the call
// and fr.block is nil.
//
// A recovered panic in a function without named return parameters
// (NRPs) becomes a normal return of the zero value of the function's
// result type.
//
// After a recovered panic in a function with NRPs, fr.result is
// undefined and fr.block contains the block at which to resume
// control.
func runFrame(fr *frame) {
	defer func() {
		if fr.block == nil {
			return // normal return
		}
		if fr.i.mode&DisableRecover != 0 {
			return // let interpreter crash
		}
		r := recover()
		if ea, isAbort := r.(engineAbort); isAbort {
			panic(ea)
		}
		fr.panicking = true
		fr.panic = r
		if X.active && X.panicStack == nil {
			X.panicStack = X.stack(14)
			if HostStack {
				fmt.Fprintf(os.Stderr, "HOST PANIC ORIGIN %v\n%s\n", r, debug.Stack())
			}
		}
		fr.runDefers()
		fr.block = fr.fn.Recover
	}()

	for {
		nonPhis := executePhis(fr)
		for _, instr := range nonPhis {
			fr.instr = instr
			X.instrs++
			if X.instrs > X.budget && X.active {
				panic(engineAbort{kind: "budget", msg: fmt.Sprintf("%d SSA instructions", X.instrs)})
			}
			if visitInstr(fr, instr) == kReturn {
				return
			}
			// Inv: kNext (continue) or kJump (last instr)
		}
	}
}

// executePhis executes the phi-nodes at the start of the current
// block and returns the non-phi instructions.
func executePhis(fr *frame) []ssa.Instruction {
	firstNonPhi := -1
	for i, instr := range fr.block.Instrs {
		if _, ok := instr.(*ssa.Phi); !ok {
			firstNonPhi = i
			break
		}
	}
	// Inv: 0 <= firstNonPhi; every block contains a non-phi.

	nonPhis := fr.block.Instrs[firstNonPhi:]
	if firstNonPhi > 0 {
		phis := fr.block.Instrs[:firstNonPhi]
		// Execute parallel assignment of phis.
		//
		// See "the swap problem" in Briggs et al's "Practical Improvements
		// to the Construction and Destruction of SSA Form" for discussion.
		predIndex := slices.Index(fr.block.Preds, fr.prevBlock)
		fr.phitemps = fr.phitemps[:0]
		for _, phi := range phis {
			phi := phi.(*ssa.Phi)
			if fr.i.mode&EnableTracing != 0 {
				fmt.Fprintln(os.Stderr, "\t", phi.Name(), "=", phi)
			}
			fr.phitemps = append(fr.phitemps, fr.get(phi.Edges[predIndex]))
		}
		for i, phi := range phis {
			fr.env[phi.(*ssa.Phi)] = fr.phitemps[i]
		}
	}
	return nonPhis
}

// doRecover implements the recover() built-in.
func doRecover(caller *frame) value {
	// recover() must be exactly one level beneath the deferred
	// function (two levels beneath the panicking function) to
	// have any effect.  Thus we ignore both "defer recover()" and
	// "defer f() -> g() -> recover()".
	if caller.i.mode&DisableRecover == 0 &&
		caller != nil && !caller.panicking &&
		caller.caller != nil && caller.caller.panicking {
		caller.caller.panicking = false
		p := caller.caller.panic
		caller.caller.panic = nil
		X.panicStack = nil

		// TODO(adonovan): support runtime.Goexit.
		switch p := p.(type) {
		case targetPanic:
			// The target program explicitly called panic().
			return p.v
		case runtime.Error:
			// The interpreter encountered a runtime error.
			return iface{caller.i.runtimeErrorString, p.Error()}
		case string:
			// The interpreter explicitly called panic().
			return iface{caller.i.runtimeErrorString, p}
		default:
			panic(fmt.Sprintf("unexpected panic type %T in target call to recover()", p))
		}
	}
	return iface{}
}

// newInterpreter prepares interpreter state for prog (global storage, reflect emulation).
func newInterpreter(prog *ssa.Program, sizes types.Sizes) *interpreter {
	i := &interpreter{
		prog:       prog,
		globals:    make(map[*ssa.Global]*value),
		sizes:      sizes,
		goroutines: 1,
	}
	runtimePkg := i.prog.ImportedPackage("runtime")
	if runtimePkg == nil {
		panic("ssa.Program doesn't include runtime package")
	}
	i.runtimeErrorString = runtimePkg.Type("errorString").Object().Type()
	initReflect(i)
	i.osArgs = append(i.osArgs, "gosym")
	for _, pkg := range i.prog.AllPackages() {
		for _, m := range pkg.Members {
			switch v := m.(type) {
			case *ssa.Global:
				cell := zero(mustDeref(v.Type()))
				i.globals[v] = &cell
			}
		}
	}
	return i
}

var extCache = map[*ssa.Function]externalFn{}
var envSize = map[*ssa.Function]int{}
var envPool []map[ssa.Value]value
var fnCount map[*ssa.Function]int

// onlyLoaded reports whether every use of the address is a plain load.
func onlyLoaded(instr *ssa.IndexAddr) bool {
	refs := instr.Referrers()
	if refs == nil {
		return false
	}
	for _, r := range *refs {
		switch r := r.(type) {
		case *ssa.UnOp:
			if r.Op != token.MUL {
				return false
			}
		case *ssa.DebugRef:
		default:
			return false
		}
	}
	return true
}

type symref struct {
	cells []value
	idx   *sym
}
