package interp

// Write barriers (read-only cells, frozen shared state) and Go-faithful append growth.

import (
	"fmt"
	"go/types"
	"strings"

	"golang.org/x/tools/go/ssa"
)

var theInterp *interpreter

const (
	flagReadOnly uint8 = 1
	flagFrozen   uint8 = 2
)

var (
	guarded      map[*value]uint8 // cells under a write barrier (per path)
	frozenCells  map[*value]uint8 // shared-state cells (selected per path from frozenCache)
	guardOn      bool
	frozenMaps   map[*omap]bool
	onceExtent   int // >0 while inside (*sync.Once).Do
	monitorMode  string
	sharedWrites []string
)

func resetPathState() {
	guarded = nil
	guardOn = false
	frozenMaps = nil
	frozenCells = nil
	onceCellsPath, onceMapsPath = nil, nil
	onceStack = onceStack[:0]
	doneOnceCall = nil
	loadBarrierOn = false
	onceExtent = 0
	sharedWrites = nil
	onceDonePath = map[*value]bool{}
}

func guardCells(cells []value, flag uint8) {
	if guarded == nil {
		guarded = map[*value]uint8{}
	}
	for i := range cells {
		guarded[&cells[i]] |= flag
	}
	guardOn = true
}

// ---- Once-ordered first use (C07 b): cells stored inside a (*sync.Once).Do extent are
// "Once-initialised"; within one call (vp.NewCall marks the boundaries) a load of such a cell
// must be preceded by Do on the same Once, otherwise the load is not ordered after the
// initialising store by the Go memory model.

type onceFrame struct {
	p      *value
	global bool
}

var (
	onceStack       []onceFrame
	onceCellsGlobal = map[*value]*value{} // cell -> Once (Once objects reachable from package globals; persists across paths)
	onceCellsPath   map[*value]*value     // cell -> Once (Once objects of this path)
	onceMapsGlobal  = map[*omap]*value{}
	onceMapsPath    map[*omap]*value
	doneOnceCall    map[*value]bool
	loadBarrierOn   bool
	globalCells     map[*value]bool
)

func isGlobalCell(i *interpreter, p *value) bool {
	if globalCells == nil {
		globalCells = map[*value]bool{}
		save1, save2 := frozenCells, frozenMaps
		freezeReachable0(i, nil, "github.com/yuin/goldmark")
		for c := range frozenCells {
			globalCells[c] = true
		}
		frozenCells, frozenMaps = save1, save2
	}
	return globalCells[p]
}

func noteOnceStore(addr *value) {
	top := onceStack[len(onceStack)-1]
	if top.global {
		onceCellsGlobal[addr] = top.p
		return
	}
	if onceCellsPath == nil {
		onceCellsPath = map[*value]*value{}
	}
	onceCellsPath[addr] = top.p
}

func noteOnceMapStore(m *omap) {
	top := onceStack[len(onceStack)-1]
	if top.global {
		onceMapsGlobal[m] = top.p
		return
	}
	if onceMapsPath == nil {
		onceMapsPath = map[*omap]*value{}
	}
	onceMapsPath[m] = top.p
}

// checkLoad is called before loads while the load barrier is on.
func checkLoad(addr *value) {
	if len(onceStack) > 0 {
		return
	}
	o, ok := onceCellsGlobal[addr]
	if !ok {
		if o, ok = onceCellsPath[addr]; !ok {
			return
		}
	}
	if !doneOnceCall[o] {
		doneOnceCall[o] = true // report once per call
		X.violation("monitor", "load of Once-initialised shared state that is not preceded by Do on that Once in the same call", X.model, X.stack(12))
	}
}

func checkMapLoad(m *omap) {
	if len(onceStack) > 0 || m == nil {
		return
	}
	o, ok := onceMapsGlobal[m]
	if !ok {
		if o, ok = onceMapsPath[m]; !ok {
			return
		}
	}
	if !doneOnceCall[o] {
		doneOnceCall[o] = true
		X.violation("monitor", "read of a Once-initialised shared map that is not preceded by Do on that Once in the same call", X.model, X.stack(12))
	}
}

// checkStore is called before every store into *addr.
func checkStore(addr *value) {
	if !guardOn {
		return
	}
	if len(onceStack) > 0 {
		noteOnceStore(addr)
	}
	if f, ok := guarded[addr]; ok {
		storeFault(f)
	}
	if frozenCells != nil {
		if f, ok := frozenCells[addr]; ok {
			storeFault(f)
		}
	}
}

func storeFault(f uint8) {
	if f&flagReadOnly != 0 {
		X.violation("monitor", "write to read-only memory", X.model, X.stack(12))
		return
	}
	if f&flagFrozen != 0 {
		if onceExtent > 0 {
			return
		}
		X.violation("monitor", "write to shared (frozen) state outside sync.Once", X.model, X.stack(12))
	}
}

func checkMapStore(m *omap) {
	if guardOn && len(onceStack) > 0 {
		noteOnceMapStore(m)
	}
	if !guardOn || frozenMaps == nil {
		return
	}
	if frozenMaps[m] && onceExtent == 0 {
		X.violation("monitor", "write to shared (frozen) map outside sync.Once", X.model, X.stack(12))
	}
}

type frozenSet struct {
	cells map[*value]uint8
	maps  map[*omap]bool
	n     int
}

// frozenCache keeps the reachable set per root identity: the shared instance and goldmark's
// globals are the same objects on every path of a worker, and a conversion that does not write
// to them (which is what the barrier checks) cannot change the set.
var frozenCache = map[string]*frozenSet{}

func rootKey(roots []value) string {
	k := ""
	for _, r := range roots {
		switch x := r.(type) {
		case iface:
			k += fmt.Sprintf("%p;", x.v)
		case *value:
			k += fmt.Sprintf("%p;", x)
		default:
			return ""
		}
	}
	return k
}

// freezeReachable puts every heap cell reachable from the roots under the frozen barrier.
func freezeReachable(i *interpreter, roots []value, pkgPrefix string) int {
	key := rootKey(roots)
	if fs, ok := frozenCache[key]; ok && key != "" {
		frozenCells, frozenMaps = fs.cells, fs.maps
		guardOn = true
		return fs.n
	}
	n := freezeReachable0(i, roots, pkgPrefix)
	if key != "" {
		frozenCache[key] = &frozenSet{cells: frozenCells, maps: frozenMaps, n: n}
	}
	return n
}

func freezeReachable0(i *interpreter, roots []value, pkgPrefix string) int {
	frozenCells = map[*value]uint8{}
	frozenMaps = map[*omap]bool{}
	seenPtr := map[*value]bool{}
	seenSlice := map[*value]int{}
	n := 0
	var walk func(v value)
	var cell func(p *value)
	cell = func(p *value) {
		if p == nil || seenPtr[p] {
			return
		}
		seenPtr[p] = true
		frozenCells[p] = flagFrozen
		n++
		walk(*p)
	}
	walk = func(v value) {
		switch x := v.(type) {
		case *value:
			cell(x)
		case structure:
			for j := range x {
				cell(&x[j])
			}
		case array:
			for j := range x {
				cell(&x[j])
			}
		case []value:
			if len(x) == 0 {
				return
			}
			if seenSlice[&x[0]] >= len(x) {
				return
			}
			seenSlice[&x[0]] = len(x)
			for j := range x {
				cell(&x[j])
			}
		case iface:
			walk(x.v)
		case *closure:
			if x != nil {
				for _, e := range x.Env {
					walk(e)
				}
			}
		case *omap:
			if x == nil || frozenMaps[x] {
				return
			}
			frozenMaps[x] = true
			for s := range x.keys {
				if x.live[s] {
					walk(x.keys[s])
					walk(x.vals[s])
				}
			}
		case tuple:
			for _, e := range x {
				walk(e)
			}
		}
	}
	for _, r := range roots {
		walk(r)
	}
	if pkgPrefix != "" {
		for g, addr := range i.globals {
			if g.Pkg != nil && strings.HasPrefix(g.Pkg.Pkg.Path(), pkgPrefix) {
				cell(addr)
			}
		}
	}
	guardOn = true
	return n
}

// ---------- append / copy ----------

var sizeClasses = []int{0, 8, 16, 24, 32, 48, 64, 80, 96, 112, 128, 144, 160, 176, 192, 208, 224, 240, 256, 288, 320, 352, 384, 416, 448, 480, 512, 576, 640, 704, 768, 896, 1024, 1152, 1280, 1408, 1536, 1792, 2048, 2304, 2688, 3072, 3200, 3456, 4096, 4864, 5120, 5376, 6144, 6528, 6784, 6912, 8192, 9472, 9728, 10240, 10880, 12288, 13568, 14336, 16384, 18432, 19072, 20480, 21760, 24576, 27264, 28672, 32768}

func roundupsize(n int) int {
	if n <= 32768 {
		for _, c := range sizeClasses {
			if c >= n {
				return c
			}
		}
	}
	return (n + 8191) &^ 8191
}

// growCap mirrors runtime.growslice's capacity computation (go1.20+).
func growCap(oldCap, newLen, elemSize int) int {
	newcap := oldCap
	doublecap := newcap + newcap
	if newLen > doublecap {
		newcap = newLen
	} else {
		const threshold = 256
		if oldCap < threshold {
			newcap = doublecap
		} else {
			for newcap < newLen {
				newcap += (newcap + 3*threshold) >> 2
			}
		}
	}
	if elemSize <= 0 {
		return newcap
	}
	mem := roundupsize(newcap * elemSize)
	return mem / elemSize
}

func goAppend(i *interpreter, fn *ssa.Builtin, dst, tail []value) []value {
	n := len(dst) + len(tail)
	if n <= cap(dst) {
		// in place: writes into spare capacity
		ext := dst[:n]
		for j := len(dst); j < n; j++ {
			checkStore(&ext[j])
			ext[j] = tail[j-len(dst)]
		}
		return ext
	}
	if len(tail) == 0 {
		return dst
	}
	elem := 8
	var et types.Type
	if sig, ok := fn.Type().(*types.Signature); ok && sig.Params().Len() > 0 {
		if st, ok := sig.Params().At(0).Type().Underlying().(*types.Slice); ok {
			et = st.Elem()
			elem = int(i.sizes.Sizeof(et))
		}
	}
	nc := growCap(cap(dst), n, elem)
	if nc < n {
		nc = n
	}
	out := make([]value, n, nc)
	copy(out, dst)
	copy(out[len(dst):], tail)
	if et != nil {
		spare := out[n:nc]
		for j := range spare {
			spare[j] = zero(et)
		}
	}
	return out
}

func goCopy(dst, src []value) int {
	n := len(dst)
	if len(src) < n {
		n = len(src)
	}
	if guardOn {
		for j := 0; j < n; j++ {
			checkStore(&dst[j])
		}
	}
	return copy(dst, src)
}

func describeValue(v value) string { return fmt.Sprintf("%T", v) }
