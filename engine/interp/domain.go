package interp

// Exact single-byte domain reasoning used as a pre-filter in front of the solver.
// For a condition that mentions exactly one 8-bit variable v, its truth table over the 256
// values of v is computed by evaluating the term (no approximation). The per-path domain of
// v is the intersection of the truth tables of all single-variable conjuncts on v. When every
// conjunct mentioning v mentions only v ("independent"), the domain is exactly the projection
// of the path condition on v, so feasibility of either side is decided without the solver;
// otherwise the domain is an over-approximation and only proves infeasibility.

type bits256 [4]uint64

func (b *bits256) has(i int) bool { return b[i>>6]&(1<<(uint(i)&63)) != 0 }
func (b *bits256) set(i int)      { b[i>>6] |= 1 << (uint(i) & 63) }
func (b bits256) and(c bits256) bits256 {
	return bits256{b[0] & c[0], b[1] & c[1], b[2] & c[2], b[3] & c[3]}
}
func (b bits256) not() bits256 { return bits256{^b[0], ^b[1], ^b[2], ^b[3]} }
func (b bits256) empty() bool  { return b[0]|b[1]|b[2]|b[3] == 0 }
func (b bits256) first() int {
	for w := 0; w < 4; w++ {
		if b[w] != 0 {
			for i := 0; i < 64; i++ {
				if b[w]&(1<<uint(i)) != 0 {
					return w*64 + i
				}
			}
		}
	}
	return -1
}

var fullBits = bits256{^uint64(0), ^uint64(0), ^uint64(0), ^uint64(0)}

// varsOf returns the single variable of e, or nil,false if e has zero or several variables
// or a variable that is not 8 bits wide. Cached on the term.
type varInfo struct {
	done   bool
	single *expr // the only variable (8-bit), if exactly one
	multi  []*expr
}

var varInfoTab = map[*expr]*varInfo{}

func exprVars(e *expr) *varInfo {
	if vi, ok := varInfoTab[e]; ok {
		return vi
	}
	vi := &varInfo{done: true}
	switch e.op {
	case "var":
		vi.multi = []*expr{e}
	case "const", "true", "false":
	default:
		seen := map[*expr]bool{}
		for _, a := range e.args {
			for _, v := range exprVars(a).multi {
				if !seen[v] {
					seen[v] = true
					vi.multi = append(vi.multi, v)
				}
			}
		}
	}
	if len(vi.multi) == 1 && vi.multi[0].w == 8 {
		vi.single = vi.multi[0]
	}
	varInfoTab[e] = vi
	return vi
}

// valTab caches, for a single-variable term, its value for each of the 256 values of the variable.
var valTabs = map[*expr]*[256]uint64{}

func valTable(e *expr) *[256]uint64 {
	if t, ok := valTabs[e]; ok {
		return t
	}
	t := new([256]uint64)
	switch e.op {
	case "var":
		for i := range t {
			t[i] = uint64(i)
		}
	case "const", "true", "false":
		for i := range t {
			t[i] = e.c
		}
	default:
		tabs := make([]*[256]uint64, len(e.args))
		for i, a := range e.args {
			tabs[i] = valTable(a)
		}
		var a [3]uint64
		for x := 0; x < 256; x++ {
			switch e.op {
			case "ite":
				if tabs[0][x] != 0 {
					t[x] = tabs[1][x]
				} else {
					t[x] = tabs[2][x]
				}
			case "and":
				v := uint64(1)
				for _, tb := range tabs {
					if tb[x] == 0 {
						v = 0
						break
					}
				}
				t[x] = v
			case "or":
				v := uint64(0)
				for _, tb := range tabs {
					if tb[x] != 0 {
						v = 1
						break
					}
				}
				t[x] = v
			default:
				for i := range tabs {
					a[i] = tabs[i][x]
				}
				t[x] = evalOp(e, a[:len(tabs)])
			}
		}
	}
	valTabs[e] = t
	return t
}

func truthBits(c *expr) bits256 {
	t := valTable(c)
	var b bits256
	for i := 0; i < 256; i++ {
		if t[i] != 0 {
			b.set(i)
		}
	}
	return b
}

type domState struct {
	dom    map[*expr]bits256
	shared map[*expr]bool // variable occurs in a multi-variable conjunct
}

func (d *domState) reset() {
	d.dom = map[*expr]bits256{}
	d.shared = map[*expr]bool{}
}

func (d *domState) get(v *expr) bits256 {
	if b, ok := d.dom[v]; ok {
		return b
	}
	return fullBits
}

// note records a conjunct added to the path condition.
func (d *domState) note(c *expr) {
	vi := exprVars(c)
	if vi.single != nil {
		d.dom[vi.single] = d.get(vi.single).and(truthBits(c))
		return
	}
	for _, v := range vi.multi {
		d.shared[v] = true
	}
}

const (
	domUnknown = iota
	domForcedTrue
	domForcedFalse
	domBoth
)

// classify decides a single-variable condition against the domain.
// For domBoth it returns witness values of the variable for the true and the false side.
func (d *domState) classify(c *expr) (res int, v *expr, wTrue, wFalse int) {
	vi := exprVars(c)
	if vi.single == nil {
		return domUnknown, nil, 0, 0
	}
	v = vi.single
	dom := d.get(v)
	tt := truthBits(c)
	yes := dom.and(tt)
	no := dom.and(tt.not())
	switch {
	case yes.empty() && no.empty():
		return domUnknown, v, 0, 0 // infeasible path condition; let the solver say so
	case no.empty():
		return domForcedTrue, v, 0, 0
	case yes.empty():
		return domForcedFalse, v, 0, 0
	}
	if d.shared[v] {
		return domUnknown, v, 0, 0
	}
	return domBoth, v, yes.first(), no.first()
}
