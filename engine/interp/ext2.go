package interp

// Externals added for gosym: sync stubs, bytealg in Go, sort.Slice, goldmark's unsafe
// conversions, strings.Builder, and the vp intrinsics.

import (
	"fmt"
	"go/types"
	"sort"

	"golang.org/x/tools/go/ssa"
)

var onceDonePath map[*value]bool

// VPPath is the import path of the harness intrinsics package.
var VPPath = "verifh/vp"

func eqVal(a, b value) bool {
	if isSym(a) || isSym(b) {
		return decide(cellEq(a, b))
	}
	return a == b
}

func bytesOf(v value) []value {
	switch x := v.(type) {
	case []value:
		return x
	case string, sstr:
		return strCells(x)
	}
	panic(fmt.Sprintf("bytesOf: %T", v))
}

func init() {
	installExternals()
}

func pruneExternals() {
	for _, k := range []string{"bytes.Equal", "bytes.IndexByte", "fmt.Sprint", "strconv.Atoi", "strconv.Itoa",
		"strings.Count", "strings.EqualFold", "strings.Index", "strings.IndexByte", "strings.Replace", "strings.ToLower",
		"unicode/utf8.DecodeRuneInString", "sort.Ints", "sort.Strings", "sort.Float64s", "os.Getenv"} {
		delete(externals, k)
	}
}

func installExternals() {
	externals["(*sync.Once).Do"] = func(fr *frame, args []value) value {
		p := args[0].(*value)
		if loadBarrierOn {
			if doneOnceCall == nil {
				doneOnceCall = map[*value]bool{}
			}
			doneOnceCall[p] = true
		}
		done := (*p).(structure)[0].(structure)
		if done[1].(uint32) != 0 {
			return nil
		}
		done[1] = uint32(1)
		onceExtent++
		if guardOn {
			onceStack = append(onceStack, onceFrame{p, isGlobalCell(fr.i, p)})
		}
		defer func() {
			onceExtent--
			if n := len(onceStack); n > 0 && onceStack[n-1].p == p {
				onceStack = onceStack[:n-1]
			}
		}()
		call(fr.i, fr.caller, 0, args[1], nil)
		return nil
	}
	nop := func(fr *frame, args []value) value { return nil }
	for _, n := range []string{"(*sync.Mutex).Lock", "(*sync.Mutex).Unlock", "(*sync.RWMutex).Lock", "(*sync.RWMutex).Unlock",
		"(*sync.RWMutex).RLock", "(*sync.RWMutex).RUnlock", "(*sync.Pool).Put", "runtime.SetFinalizer", "runtime.KeepAlive",
		"(*sync.WaitGroup).Add", "(*sync.WaitGroup).Done", "(*sync.WaitGroup).Wait"} {
		externals[n] = nop
	}
	externals["(*sync.Mutex).TryLock"] = func(fr *frame, args []value) value { return true }
	externals["(*sync.Pool).Get"] = func(fr *frame, args []value) value {
		p := args[0].(*value)
		st := (*p).(structure)
		newf := st[len(st)-1]
		switch c := newf.(type) {
		case nil:
			return iface{}
		case *closure:
			if c == nil {
				return iface{}
			}
		case *ssa.Function:
			if c == nil {
				return iface{}
			}
		}
		return call(fr.i, fr.caller, 0, newf, nil)
	}
	externals["sort.Slice"] = func(fr *frame, args []value) value {
		s := args[0].(iface).v.([]value)
		less := args[1]
		sort.Slice(s, func(i, j int) bool {
			r := call(fr.i, fr.caller, 0, less, []value{i, j})
			return concretizeVal(r).(bool)
		})
		return nil
	}
	externals["sort.SliceStable"] = func(fr *frame, args []value) value {
		s := args[0].(iface).v.([]value)
		less := args[1]
		sort.SliceStable(s, func(i, j int) bool {
			r := call(fr.i, fr.caller, 0, less, []value{i, j})
			return concretizeVal(r).(bool)
		})
		return nil
	}

	// ---- internal/bytealg in plain Go, symbolic-aware ----
	indexByte := func(fr *frame, args []value) value {
		s := bytesOf(args[0])
		for i := range s {
			if eqVal(s[i], args[1]) {
				return i
			}
		}
		return -1
	}
	externals["internal/bytealg.IndexByte"] = indexByte
	externals["internal/bytealg.IndexByteString"] = indexByte
	lastIndexByte := func(fr *frame, args []value) value {
		s := bytesOf(args[0])
		for i := len(s) - 1; i >= 0; i-- {
			if eqVal(s[i], args[1]) {
				return i
			}
		}
		return -1
	}
	externals["internal/bytealg.LastIndexByte"] = lastIndexByte
	externals["internal/bytealg.LastIndexByteString"] = lastIndexByte
	count := func(fr *frame, args []value) value {
		s := bytesOf(args[0])
		n := 0
		for i := range s {
			if eqVal(s[i], args[1]) {
				n++
			}
		}
		return n
	}
	externals["internal/bytealg.Count"] = count
	externals["internal/bytealg.CountString"] = count
	externals["internal/bytealg.Equal"] = func(fr *frame, args []value) value {
		a, b := bytesOf(args[0]), bytesOf(args[1])
		if len(a) != len(b) {
			return false
		}
		return wrap(cellsEqTerm(a, b), types.Bool)
	}
	index := func(fr *frame, args []value) value {
		a, b := bytesOf(args[0]), bytesOf(args[1])
		for i := 0; i+len(b) <= len(a); i++ {
			if decide(cellsEqTerm(a[i:i+len(b)], b)) {
				return i
			}
		}
		return -1
	}
	externals["internal/bytealg.Index"] = index
	externals["internal/bytealg.IndexString"] = index
	externals["internal/bytealg.MakeNoZero"] = func(fr *frame, args []value) value {
		n := int(asInt64(args[0]))
		s := make([]value, n)
		for i := range s {
			s[i] = byte(0)
		}
		return s
	}
	compare := func(fr *frame, args []value) value {
		a, b := bytesOf(args[0]), bytesOf(args[1])
		for i := 0; i < len(a) && i < len(b); i++ {
			if !eqVal(a[i], b[i]) {
				ea, _, _ := toExpr(a[i])
				eb, _, _ := toExpr(b[i])
				if decide(mkop("bvult", 0, ea, eb)) {
					return -1
				}
				return 1
			}
		}
		switch {
		case len(a) < len(b):
			return -1
		case len(a) > len(b):
			return 1
		}
		return 0
	}
	externals["internal/bytealg.Compare"] = compare
	externals["internal/bytealg.CompareString"] = compare
	externals["internal/stringslite.Index"] = index
	externals["internal/stringslite.IndexByte"] = indexByte

	// ---- goldmark's two unsafe one-liners ----
	externals["github.com/yuin/goldmark/util.BytesToReadOnlyString"] = func(fr *frame, args []value) value {
		return mkString(args[0].([]value))
	}
	externals["github.com/yuin/goldmark/util.StringToReadOnlyBytes"] = func(fr *frame, args []value) value {
		c := strCells(args[0])
		out := make([]value, len(c))
		copy(out, c)
		if X.active {
			guardCells(out, flagReadOnly)
		}
		return out
	}
	// strings.Builder.String uses unsafe.String
	externals["(*strings.Builder).String"] = func(fr *frame, args []value) value {
		p := args[0].(*value)
		st := (*p).(structure)
		return mkString(st[1].([]value))
	}
	externals["(*strings.Builder).copyCheck"] = nop
	externals["unsafe.String"] = func(fr *frame, args []value) value { unsupported("unsafe.String"); return nil }
	externals["os.Getenv"] = func(fr *frame, args []value) value { return "" }
	externals["runtime.Callers"] = func(fr *frame, args []value) value { return 0 }
	externals["runtime.Caller"] = func(fr *frame, args []value) value { return tuple{uintptr(0), "", 0, false} }

	// ---- vp intrinsics ----
	vp := func(name string, f externalFn) { externals[VPPath+"."+name] = f }
	vp("Byte", func(fr *frame, args []value) value { return X.newVar(args[0].(string), types.Uint8) })
	vp("Bool", func(fr *frame, args []value) value { return X.newVar(args[0].(string), types.Bool) })
	vp("Int", func(fr *frame, args []value) value { return X.newVar(args[0].(string), types.Int) })
	vp("Rune", func(fr *frame, args []value) value { return X.newVar(args[0].(string), types.Int32) })
	vp("IntRange", func(fr *frame, args []value) value {
		lo, hi := asInt64(args[1]), asInt64(args[2])
		if hi < lo {
			panic(engineAbort{kind: "infeasible"})
		}
		if hi-lo <= 255 {
			// small ranges are carried by an 8-bit offset variable so that the exact byte-domain
			// filter decides them without the solver (the native side mirrors this encoding)
			v := X.newVar(args[0].(string), types.Uint8)
			s, ok := v.(*sym)
			if !ok { // concrete run
				return int(lo) + int(v.(uint8))
			}
			X.assume(mkop("bvule", 0, s.e, konst(8, uint64(hi-lo))))
			return wrap(mkop("bvadd", 64, mkop("zext", 64, s.e), konst(64, uint64(lo))), types.Int)
		}
		v := X.newVar(args[0].(string), types.Int)
		if s, ok := v.(*sym); ok {
			X.assume(mkand(mkop("bvsle", 0, konst(64, uint64(lo)), s.e), mkop("bvsle", 0, s.e, konst(64, uint64(hi)))))
		}
		return v
	})
	vp("Bytes", func(fr *frame, args []value) value {
		name := args[0].(string)
		n := int(asInt64(args[1]))
		s := make([]value, n)
		for i := range s {
			s[i] = X.newVar(fmt.Sprintf("%s_%d", name, i), types.Uint8)
		}
		return s
	})
	vp("Assume", func(fr *frame, args []value) value {
		if s, ok := args[0].(*sym); ok {
			X.assume(s.e)
			return nil
		}
		if !args[0].(bool) {
			panic(engineAbort{kind: "infeasible"})
		}
		return nil
	})
	vp("Assert", func(fr *frame, args []value) value {
		X.cur = fr.caller
		msg := concreteString(args[1])
		if s, ok := args[0].(*sym); ok {
			X.assert(s.e, msg)
			return nil
		}
		X.assert(kbool(args[0].(bool)), msg)
		return nil
	})
	vp("Reach", func(fr *frame, args []value) value {
		X.st.Reach[args[0].(string)]++
		return nil
	})
	vp("Observe", func(fr *frame, args []value) value {
		c := bytesOf(args[1])
		cp := make([]value, len(c))
		copy(cp, c)
		X.obs = append(X.obs, obsRec{args[0].(string), cp})
		return nil
	})
	vp("ObserveInt", func(fr *frame, args []value) value {
		v := args[1]
		e, _, _ := toExpr(v)
		var cells []value
		for sh := 56; sh >= 0; sh -= 8 {
			cells = append(cells, wrap(mkop("trunc", 8, mkop("bvlshr", 64, e, konst(64, uint64(sh)))), types.Uint8))
		}
		X.obs = append(X.obs, obsRec{args[0].(string), cells})
		return nil
	})
	vp("EqBytes", func(fr *frame, args []value) value {
		return wrap(cellsEqTerm(bytesOf(args[0]), bytesOf(args[1])), types.Bool)
	})
	vp("EqString", func(fr *frame, args []value) value {
		return wrap(cellsEqTerm(bytesOf(args[0]), bytesOf(args[1])), types.Bool)
	})
	boolE := func(v value) *expr { e, _, _ := toExpr(v); return e }
	vp("And", func(fr *frame, args []value) value { return wrap(mkand(boolE(args[0]), boolE(args[1])), types.Bool) })
	vp("Or", func(fr *frame, args []value) value { return wrap(mkor(boolE(args[0]), boolE(args[1])), types.Bool) })
	vp("Not", func(fr *frame, args []value) value { return wrap(mknot(boolE(args[0])), types.Bool) })
	vp("Implies", func(fr *frame, args []value) value {
		return wrap(mkimplies(boolE(args[0]), boolE(args[1])), types.Bool)
	})
	vp("IteByte", func(fr *frame, args []value) value {
		a, _, _ := toExpr(args[1])
		b, _, _ := toExpr(args[2])
		return wrap(mkop("ite", 8, boolE(args[0]), a, b), types.Uint8)
	})
	vp("IteInt", func(fr *frame, args []value) value {
		a, _, _ := toExpr(args[1])
		b, _, _ := toExpr(args[2])
		return wrap(mkop("ite", 64, boolE(args[0]), a, b), types.Int)
	})
	vp("InSet", func(fr *frame, args []value) value {
		e, _, _ := toExpr(args[0])
		set := args[1].(string)
		var ors []*expr
		for i := 0; i < len(set); i++ {
			ors = append(ors, mkop("=", 0, e, konst(8, uint64(set[i]))))
		}
		return wrap(mkor(ors...), types.Bool)
	})
	vp("InRange", func(fr *frame, args []value) value {
		e, _, _ := toExpr(args[0])
		lo, _, _ := toExpr(args[1])
		hi, _, _ := toExpr(args[2])
		return wrap(mkand(mkop("bvule", 0, lo, e), mkop("bvule", 0, e, hi)), types.Bool)
	})
	vp("ParamInt", func(fr *frame, args []value) value {
		s, ok := X.job.Params[args[0].(string)]
		if !ok {
			return int(asInt64(args[1]))
		}
		var n int
		fmt.Sscan(s, &n)
		return n
	})
	vp("ParamStr", func(fr *frame, args []value) value {
		s, ok := X.job.Params[args[0].(string)]
		if !ok {
			return args[1]
		}
		return s
	})
	vp("IsSymbolic", func(fr *frame, args []value) value { return anySym(args[0]) })
	vp("Concrete", func(fr *frame, args []value) value { return concretizeVal(args[0]) })
	vp("ConcreteByte", func(fr *frame, args []value) value { return concretizeVal(args[0]) })
	vp("ReadOnly", func(fr *frame, args []value) value {
		s := args[0].([]value)
		guardCells(s[:cap(s)], flagReadOnly)
		return nil
	})
	vp("Freeze", func(fr *frame, args []value) value {
		var roots []value
		for _, a := range args[0].([]value) {
			roots = append(roots, a)
		}
		n := freezeReachable(fr.i, roots, "github.com/yuin/goldmark")
		X.st.Reach["frozen-cells"] = n
		return nil
	})
	vp("FreezeFresh", func(fr *frame, args []value) value {
		var roots []value
		for _, a := range args[0].([]value) {
			roots = append(roots, a)
		}
		n := freezeReachable0(fr.i, roots, "github.com/yuin/goldmark")
		guardOn = true
		X.st.Reach["frozen-cells"] = n
		return nil
	})
	vp("NewCall", func(fr *frame, args []value) value {
		doneOnceCall = map[*value]bool{}
		loadBarrierOn = true
		return nil
	})
	vp("Unfreeze", func(fr *frame, args []value) value {
		frozenCells = nil
		frozenMaps = nil
		return nil
	})
	vp("Symbolic", func(fr *frame, args []value) value { return !X.concrete })
	vp("Fail", func(fr *frame, args []value) value {
		X.cur = fr.caller
		X.assert(eFalse, concreteString(args[0]))
		return nil
	})
}

// anySym reports whether v (possibly boxed in an interface, a string or a slice) holds a symbolic scalar.
func anySym(v value) bool {
	switch x := v.(type) {
	case iface:
		return anySym(x.v)
	case *sym:
		return true
	case sstr:
		return true
	case []value:
		for _, e := range x {
			if anySym(e) {
				return true
			}
		}
	case structure:
		for _, e := range x {
			if anySym(e) {
				return true
			}
		}
	}
	return false
}

// sync/atomic: single goroutine, so every operation is its plain counterpart; stores go through the write
// barriers like any other store (a cache kept in a sync.Map or an atomic counter on shared state is a store
// to shared state). Typed by the function-name suffix.
func init() { extraInstallers = append(extraInstallers, installAtomics) }

var extraInstallers []func()

func installAtomics() {
	add := func(kind string, a, b value) value {
		a, b = concretizeVal(a), concretizeVal(b)
		switch kind {
		case "Int32":
			return a.(int32) + b.(int32)
		case "Int64":
			return a.(int64) + b.(int64)
		case "Uint32":
			return a.(uint32) + b.(uint32)
		case "Uint64":
			return a.(uint64) + b.(uint64)
		case "Uintptr":
			return a.(uintptr) + b.(uintptr)
		}
		panic("atomic add: " + kind)
	}
	bitop := func(kind string, and bool, a, b value) value {
		a, b = concretizeVal(a), concretizeVal(b)
		switch kind {
		case "Int32":
			if and {
				return a.(int32) & b.(int32)
			}
			return a.(int32) | b.(int32)
		case "Int64":
			if and {
				return a.(int64) & b.(int64)
			}
			return a.(int64) | b.(int64)
		case "Uint32":
			if and {
				return a.(uint32) & b.(uint32)
			}
			return a.(uint32) | b.(uint32)
		case "Uint64":
			if and {
				return a.(uint64) & b.(uint64)
			}
			return a.(uint64) | b.(uint64)
		case "Uintptr":
			if and {
				return a.(uintptr) & b.(uintptr)
			}
			return a.(uintptr) | b.(uintptr)
		}
		panic("atomic bitop: " + kind)
	}
	for _, kind := range []string{"Int32", "Int64", "Uint32", "Uint64", "Uintptr", "Pointer"} {
		kind := kind
		externals["sync/atomic.Load"+kind] = func(fr *frame, args []value) value {
			p := args[0].(*value)
			if loadBarrierOn {
				checkLoad(p)
			}
			return *p
		}
		externals["sync/atomic.Store"+kind] = func(fr *frame, args []value) value {
			p := args[0].(*value)
			checkStore(p)
			*p = args[1]
			return nil
		}
		externals["sync/atomic.Swap"+kind] = func(fr *frame, args []value) value {
			p := args[0].(*value)
			old := *p
			checkStore(p)
			*p = args[1]
			return old
		}
		externals["sync/atomic.CompareAndSwap"+kind] = func(fr *frame, args []value) value {
			p := args[0].(*value)
			if concretizeVal(*p) == concretizeVal(args[1]) {
				checkStore(p)
				*p = args[2]
				return true
			}
			return false
		}
		if kind != "Pointer" {
			externals["sync/atomic.Add"+kind] = func(fr *frame, args []value) value {
				p := args[0].(*value)
				checkStore(p)
				*p = add(kind, *p, args[1])
				return *p
			}
			externals["sync/atomic.And"+kind] = func(fr *frame, args []value) value {
				p := args[0].(*value)
				old := *p
				checkStore(p)
				*p = bitop(kind, true, *p, args[1])
				return old
			}
			externals["sync/atomic.Or"+kind] = func(fr *frame, args []value) value {
				p := args[0].(*value)
				old := *p
				checkStore(p)
				*p = bitop(kind, false, *p, args[1])
				return old
			}
		}
	}
	nop := func(fr *frame, args []value) value { return nil }
	externals["runtime.Gosched"] = nop
	externals["sync.runtime_Semacquire"] = nop
	externals["sync.runtime_Semrelease"] = nop
	externals["sync.runtime_procPin"] = func(fr *frame, args []value) value { return 0 }
	externals["sync.runtime_procUnpin"] = nop
}
