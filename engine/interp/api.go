package interp

// Public API of the engine: load /repo's current source (plus harnesses and overlays),
// build SSA, initialise packages, run jobs.

import (
	"fmt"
	"go/types"
	"os"
	"sort"
	"strings"

	"golang.org/x/tools/go/packages"
	"golang.org/x/tools/go/ssa"
	"golang.org/x/tools/go/ssa/ssautil"
)

type Program struct {
	I     *interpreter
	Prog  *ssa.Program
	Pkgs  []*ssa.Package
	funcs map[string]*ssa.Function
}

// Load type-checks and builds SSA for the patterns in dir, with optional overlay files.
func Load(dir string, patterns []string, overlay map[string][]byte, env []string) (*Program, error) {
	pruneExternals()
	installExternals()
	for _, f := range extraInstallers {
		f()
	}
	cfg := &packages.Config{Mode: packages.LoadAllSyntax, Dir: dir, Overlay: overlay, Env: append(os.Environ(), env...)}
	pkgs, err := packages.Load(cfg, patterns...)
	if err != nil {
		return nil, err
	}
	var errs []string
	packages.Visit(pkgs, nil, func(p *packages.Package) {
		for _, e := range p.Errors {
			errs = append(errs, e.Error())
		}
	})
	if len(errs) > 0 {
		return nil, fmt.Errorf("load errors:\n%s", strings.Join(errs, "\n"))
	}
	prog, spkgs := ssautil.AllPackages(pkgs, ssa.InstantiateGenerics)
	prog.Build()
	p := &Program{Prog: prog, Pkgs: spkgs, funcs: map[string]*ssa.Function{}}
	p.I = newInterpreter(prog, &types.StdSizes{WordSize: 8, MaxAlign: 8})
	theInterp = p.I
	return p, nil
}

var skipInit = map[string]bool{"runtime": true, "sync": true, "sync/atomic": true, "syscall": true, "os": true,
	"reflect": true, "time": true, "io/fs": true, "errors": true, "unsafe": true, "iter": true, "path/filepath": true}

func init() {
	SkipInit = func(p string) bool {
		return skipInit[p] || strings.HasPrefix(p, "internal/") || strings.HasPrefix(p, "runtime/")
	}
}

// InitPackages runs the package initialisers reachable from the root packages.
func (p *Program) InitPackages() (err error) {
	defer func() {
		if r := recover(); r != nil {
			err = fmt.Errorf("package init failed: %v", panicText(r))
		}
	}()
	X.budget = 1 << 62
	for _, sp := range p.Pkgs {
		if sp == nil {
			continue
		}
		if f := sp.Func("init"); f != nil {
			call(p.I, nil, 0, f, nil)
		}
	}
	return nil
}

// Lookup resolves "import/path.Func".
func (p *Program) Lookup(entry string) *ssa.Function {
	if f, ok := p.funcs[entry]; ok {
		return f
	}
	i := strings.LastIndex(entry, ".")
	if i < 0 {
		return nil
	}
	pkg := p.Prog.ImportedPackage(entry[:i])
	if pkg == nil {
		return nil
	}
	f := pkg.Func(entry[i+1:])
	p.funcs[entry] = f
	return f
}

func (p *Program) Run(job *Job) *Result {
	fn := p.Lookup(job.Entry)
	if fn == nil {
		return &Result{ID: job.ID, EngineErrs: []string{"no such entry function: " + job.Entry}}
	}
	fnCount = map[*ssa.Function]int{}
	res := p.I.RunJob(job, fn)
	// goldmark functions executed during the job
	if res.Stats.Funcs == nil {
		res.Stats.Funcs = map[string]int{}
	}
	for f, n := range fnCount {
		if f.Pkg != nil && strings.HasPrefix(f.Pkg.Pkg.Path(), "github.com/yuin/goldmark") {
			res.Stats.Funcs["exec:"+f.String()] += n
		}
	}
	return res
}

func (p *Program) Close() {
	if X.Z != nil {
		X.Z.close()
		X.Z = nil
	}
}

// EntryNames lists exported harness entry points (functions named H_* ) for diagnostics.
func (p *Program) EntryNames(prefix string) []string {
	var out []string
	for _, sp := range p.Pkgs {
		if sp == nil {
			continue
		}
		for name, m := range sp.Members {
			if f, ok := m.(*ssa.Function); ok && strings.HasPrefix(name, prefix) {
				out = append(out, f.Pkg.Pkg.Path()+"."+name)
			}
		}
	}
	sort.Strings(out)
	return out
}
