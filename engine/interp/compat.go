package interp

import "go/types"

func mustDeref(t types.Type) types.Type {
	if p, ok := t.Underlying().(*types.Pointer); ok {
		return p.Elem()
	}
	panic("mustDeref: not a pointer: " + t.String())
}
