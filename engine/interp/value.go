// Copyright 2013 The Go Authors. All rights reserved.
// Use of this source code is governed by a BSD-style
// license that can be found in the LICENSE file.

package interp

// Values
//
// All interpreter values are "boxed" in the empty interface, value.
// The range of possible dynamic types within value are:
//
// - bool
// - numbers (all built-in int/float/complex types are distinguished)
// - string
// - map[value]value --- maps for which  usesBuiltinMap(keyType)
//   *hashmap        --- maps for which !usesBuiltinMap(keyType)
// - chan value
// - []value --- slices
// - iface --- interfaces.
// - structure --- structs.  Fields are ordered and accessed by numeric indices.
// - array --- arrays.
// - *value --- pointers.  Careful: *value is a distinct type from *array etc.
// - *ssa.Function \
//   *ssa.Builtin   } --- functions.  A nil 'func' is always of type *ssa.Function.
//   *closure      /
// - tuple --- as returned by Return, Next, "value,ok" modes, etc.
// - iter --- iterators from 'range' over map or string.
// - bad --- a poison pill for locals that have gone out of scope.
// - rtype -- the interpreter's concrete implementation of reflect.Type
// - **deferred -- the address of a frame's defer stack for a Defer._Stack.
//
// Note that nil is not on this list.
//
// Pay close attention to whether or not the dynamic type is a pointer.
// The compiler cannot help you since value is an empty interface.

import (
	"bytes"
	"fmt"
	"go/types"
	"io"
	"reflect"
	"strings"
	"sync"
	"unsafe"

	"golang.org/x/tools/go/ssa"
	"golang.org/x/tools/go/types/typeutil"
)

type value interface{}

type tuple []value

type array []value

type iface struct {
	t types.Type // never an "untyped" type
	v value
}

type structure []value

// For map, array, *array, slice, string or channel.
type iter interface {
	// next returns a Tuple (key, value, ok).
	// key and value are unaliased, e.g. copies of the sequence element.
	next() tuple
}

type closure struct {
	Fn  *ssa.Function
	Env []value
}

type bad struct{}

type rtype struct {
	t types.Type
}

// Hash functions and equivalence relation:

// hashString computes the FNV hash of s.
func hashString(s string) int {
	var h uint32
	for i := 0; i < len(s); i++ {
		h ^= uint32(s[i])
		h *= 16777619
	}
	return int(h)
}

var (
	mu     sync.Mutex
	hasher = typeutil.MakeHasher()
)

// hashType returns a hash for t such that
// types.Identical(x, y) => hashType(x) == hashType(y).
func hashType(t types.Type) int {
	return int(hasher.Hash(t))
}

// usesBuiltinMap returns true if the built-in hash function and
// equivalence relation for type t are consistent with those of the
// interpreter's representation of type t.  Such types are: all basic
// types (bool, numbers, string), pointers and channels.
//
// usesBuiltinMap returns false for types that require a custom map
// implementation: interfaces, arrays and structs.
//
// Panic ensues if t is an invalid map key type: function, map or slice.
func usesBuiltinMap(t types.Type) bool {
	switch t := t.(type) {
	case *types.Basic, *types.Chan, *types.Pointer:
		return true
	case *types.Named, *types.Alias:
		return usesBuiltinMap(t.Underlying())
	case *types.Interface, *types.Array, *types.Struct:
		return false
	}
	panic(fmt.Sprintf("invalid map key type: %T", t))
}

func (x array) eq(t types.Type, _y interface{}) bool {
	y := _y.(array)
	tElt := t.Underlying().(*types.Array).Elem()
	for i, xi := range x {
		if !equals(tElt, xi, y[i]) {
			return false
		}
	}
	return true
}

func (x array) hash(t types.Type) int {
	h := 0
	tElt := t.Underlying().(*types.Array).Elem()
	for _, xi := range x {
		h += hash(t, tElt, xi)
	}
	return h
}

func (x structure) eq(t types.Type, _y interface{}) bool {
	y := _y.(structure)
	tStruct := t.Underlying().(*types.Struct)
	for i, n := 0, tStruct.NumFields(); i < n; i++ {
		if f := tStruct.Field(i); !f.Anonymous() {
			if !equals(f.Type(), x[i], y[i]) {
				return false
			}
		}
	}
	return true
}

func (x structure) hash(t types.Type) int {
	tStruct := t.Underlying().(*types.Struct)
	h := 0
	for i, n := 0, tStruct.NumFields(); i < n; i++ {
		if f := tStruct.Field(i); !f.Anonymous() {
			h += hash(t, f.Type(), x[i])
		}
	}
	return h
}

// nil-tolerant variant of types.Identical.
func sameType(x, y types.Type) bool {
	if x == nil {
		return y == nil
	}
	return y != nil && types.Identical(x, y)
}

func (x iface) eq(t types.Type, _y interface{}) bool {
	y := _y.(iface)
	return sameType(x.t, y.t) && (x.t == nil || equals(x.t, x.v, y.v))
}

func (x iface) hash(outer types.Type) int {
	return hashType(x.t)*8581 + hash(outer, x.t, x.v)
}

func (x rtype) hash(_ types.Type) int {
	return hashType(x.t)
}

func (x rtype) eq(_ types.Type, y interface{}) bool {
	return types.Identical(x.t, y.(rtype).t)
}

// equals returns true iff x and y are equal according to Go's
// linguistic equivalence relation for type t.
// In a well-typed program, the dynamic types of x and y are
// guaranteed equal.
func equals(t types.Type, x, y value) bool {
	if isSym(x) || isSym(y) {
		return decide(cellEq(x, y))
	}
	if _, ok := y.(sstr); ok {
		return decide(strEqTerm(x, y))
	}
	switch x := x.(type) {
	case sstr:
		return decide(strEqTerm(x, y))
	case bool:
		return x == y.(bool)
	case int:
		return x == y.(int)
	case int8:
		return x == y.(int8)
	case int16:
		return x == y.(int16)
	case int32:
		return x == y.(int32)
	case int64:
		return x == y.(int64)
	case uint:
		return x == y.(uint)
	case uint8:
		return x == y.(uint8)
	case uint16:
		return x == y.(uint16)
	case uint32:
		return x == y.(uint32)
	case uint64:
		return x == y.(uint64)
	case uintptr:
		return x == y.(uintptr)
	case float32:
		return x == y.(float32)
	case float64:
		return x == y.(float64)
	case complex64:
		return x == y.(complex64)
	case complex128:
		return x == y.(complex128)
	case string:
		return x == y.(string)
	case *value:
		return x == y.(*value)
	case chan value:
		return x == y.(chan value)
	case structure:
		return x.eq(t, y)
	case array:
		return x.eq(t, y)
	case iface:
		return x.eq(t, y)
	case rtype:
		return x.eq(t, y)
	}

	// Since map, func and slice don't support comparison, this
	// case is only reachable if one of x or y is literally nil
	// (handled in eqnil) or via interface{} values.
	panic(fmt.Sprintf("comparing uncomparable type %s", t))
}

// Returns an integer hash of x such that equals(x, y) => hash(x) == hash(y).
// The outer type is used only for the "unhashable" panic message.
func hash(outer, t types.Type, x value) int {
	switch x := x.(type) {
	case *sym, sstr:
		unsupported("hash of symbolic value inside a composite map key")
	case bool:
		if x {
			return 1
		}
		return 0
	case int:
		return x
	case int8:
		return int(x)
	case int16:
		return int(x)
	case int32:
		return int(x)
	case int64:
		return int(x)
	case uint:
		return int(x)
	case uint8:
		return int(x)
	case uint16:
		return int(x)
	case uint32:
		return int(x)
	case uint64:
		return int(x)
	case uintptr:
		return int(x)
	case float32:
		return int(x)
	case float64:
		return int(x)
	case complex64:
		return int(real(x))
	case complex128:
		return int(real(x))
	case string:
		return hashString(x)
	case *value:
		return int(uintptr(unsafe.Pointer(x)))
	case chan value:
		return int(uintptr(reflect.ValueOf(x).Pointer()))
	case structure:
		return x.hash(t)
	case array:
		return x.hash(t)
	case iface:
		return x.hash(t)
	case rtype:
		return x.hash(t)
	}
	panic(fmt.Sprintf("unhashable type %v", outer))
}

// reflect.Value struct values don't have a fixed shape, since the
// payload can be a scalar or an aggregate depending on the instance.
// So store (and load) can't simply use recursion over the shape of the
// rhs value, or the lhs, to copy the value; we need the static type
// information.  (We can't make reflect.Value a new basic data type
// because its "structness" is exposed to Go programs.)

// load returns the value of type T in *addr.
func load(T types.Type, addr *value) value {
	switch T := T.Underlying().(type) {
	case *types.Struct:
		v := (*addr).(structure)
		a := make(structure, len(v))
		for i := range a {
			a[i] = load(T.Field(i).Type(), &v[i])
		}
		return a
	case *types.Array:
		v := (*addr).(array)
		a := make(array, len(v))
		for i := range a {
			a[i] = load(T.Elem(), &v[i])
		}
		return a
	default:
		return *addr
	}
}

// storeChecked is store with the write barriers applied to every cell written.
func storeChecked(T types.Type, addr *value, v value) {
	if !guardOn {
		store(T, addr, v)
		return
	}
	switch T := T.Underlying().(type) {
	case *types.Struct:
		lhs := (*addr).(structure)
		rhs := v.(structure)
		for i := range lhs {
			storeChecked(T.Field(i).Type(), &lhs[i], rhs[i])
		}
	case *types.Array:
		lhs := (*addr).(array)
		rhs := v.(array)
		for i := range lhs {
			storeChecked(T.Elem(), &lhs[i], rhs[i])
		}
	default:
		checkStore(addr)
		*addr = v
	}
}

type hashable interface {
	hash(t types.Type) int
	eq(t types.Type, x interface{}) bool
}

// store stores value v of type T into *addr.
func store(T types.Type, addr *value, v value) {
	switch T := T.Underlying().(type) {
	case *types.Struct:
		lhs := (*addr).(structure)
		rhs := v.(structure)
		for i := range lhs {
			store(T.Field(i).Type(), &lhs[i], rhs[i])
		}
	case *types.Array:
		lhs := (*addr).(array)
		rhs := v.(array)
		for i := range lhs {
			store(T.Elem(), &lhs[i], rhs[i])
		}
	default:
		*addr = v
	}
}

// Prints in the style of built-in println.
// (More or less; in gc println is actually a compiler intrinsic and
// can distinguish println(1) from println(interface{}(1)).)
func writeValue(buf *bytes.Buffer, v value) {
	switch v := v.(type) {
	case nil, bool, int, int8, int16, int32, int64, uint, uint8, uint16, uint32, uint64, uintptr, float32, float64, complex64, complex128, string:
		fmt.Fprintf(buf, "%v", v)

	case *omap:
		buf.WriteString("map[")
		sep := ""
		if v != nil {
			for s := range v.keys {
				if !v.live[s] {
					continue
				}
				buf.WriteString(sep)
				sep = " "
				writeValue(buf, v.keys[s])
				buf.WriteString(":")
				writeValue(buf, v.vals[s])
			}
		}
		buf.WriteString("]")

	case *sym:
		fmt.Fprintf(buf, "<sym %d>", v.e.id)

	case sstr:
		fmt.Fprintf(buf, "<sstr len %d>", len(v.b))

	case chan value:
		fmt.Fprintf(buf, "%v", v) // (an address)

	case *value:
		if v == nil {
			buf.WriteString("<nil>")
		} else {
			fmt.Fprintf(buf, "%p", v)
		}

	case iface:
		fmt.Fprintf(buf, "(%s, ", v.t)
		writeValue(buf, v.v)
		buf.WriteString(")")

	case structure:
		buf.WriteString("{")
		for i, e := range v {
			if i > 0 {
				buf.WriteString(" ")
			}
			writeValue(buf, e)
		}
		buf.WriteString("}")

	case array:
		buf.WriteString("[")
		for i, e := range v {
			if i > 0 {
				buf.WriteString(" ")
			}
			writeValue(buf, e)
		}
		buf.WriteString("]")

	case []value:
		buf.WriteString("[")
		for i, e := range v {
			if i > 0 {
				buf.WriteString(" ")
			}
			writeValue(buf, e)
		}
		buf.WriteString("]")

	case *ssa.Function, *ssa.Builtin, *closure:
		fmt.Fprintf(buf, "%p", v) // (an address)

	case rtype:
		buf.WriteString(v.t.String())

	case tuple:
		// Unreachable in well-formed Go programs
		buf.WriteString("(")
		for i, e := range v {
			if i > 0 {
				buf.WriteString(", ")
			}
			writeValue(buf, e)
		}
		buf.WriteString(")")

	default:
		fmt.Fprintf(buf, "<%T>", v)
	}
}

// Implements printing of Go values in the style of built-in println.
func toString(v value) string {
	var b bytes.Buffer
	writeValue(&b, v)
	return b.String()
}

// ------------------------------------------------------------------------
// Iterators

type stringIter struct {
	*strings.Reader
	i int
}

func (it *stringIter) next() tuple {
	okv := make(tuple, 3)
	ch, n, err := it.ReadRune()
	ok := err != io.EOF
	okv[0] = ok
	if ok {
		okv[1] = it.i
		okv[2] = ch
	}
	it.i += n
	return okv
}
