package interp

// omap: one insertion-ordered map implementation for every Go map type.
// Iteration order is deterministic (insertion order), and keys may be symbolic
// (a *sym scalar or an sstr): lookups then fork over "equals existing key k" / "equals none".

import (
	"fmt"
	"go/types"
)

type omap struct {
	keyType types.Type
	keys    []value
	vals    []value
	live    []bool
	n       int
	idx     map[value]int // natively comparable concrete keys
	hidx    map[int][]int // hashable (struct/array/iface) concrete keys
	byLen   map[int][]int // string-keyed slots by length (concrete and symbolic)
	symSlot []int         // slots whose key is symbolic
	native  bool
}

func makeMap(kt types.Type, reserve int64) value {
	return &omap{keyType: kt, idx: map[value]int{}, native: usesBuiltinMap(kt)}
}

func isSymKey(k value) bool {
	switch k.(type) {
	case *sym, sstr:
		return true
	}
	return false
}

func (m *omap) len() int {
	if m == nil {
		return 0
	}
	return m.n
}

// keyEqTerm builds the term k1 == k2 for two keys of the map's key type.
func keyEqTerm(a, b value) *expr {
	if isStr(a) && isStr(b) {
		return strEqTerm(a, b)
	}
	if ea, _, ok := toExpr(a); ok {
		if eb, _, ok := toExpr(b); ok {
			return mkop("=", 0, ea, eb)
		}
	}
	unsupported("map key comparison %T / %T", a, b)
	return nil
}

func (m *omap) concreteSlot(k value) (int, bool) {
	if m.native {
		s, ok := m.idx[k]
		return s, ok
	}
	h := k.(hashable)
	for _, s := range m.hidx[h.hash(m.keyType)] {
		if m.live[s] && h.eq(m.keyType, m.keys[s]) {
			return s, true
		}
	}
	return 0, false
}

// slot finds the slot holding key k, or -1.
func (m *omap) slot(k value) int {
	if m == nil || m.n == 0 {
		return -1
	}
	if !isSymKey(k) {
		if s, ok := m.concreteSlot(k); ok {
			return s
		}
		if len(m.symSlot) == 0 {
			return -1
		}
		var cands []int
		for _, s := range m.symSlot {
			if !m.live[s] {
				continue
			}
			if isStr(k) && strLen(m.keys[s]) != strLen(k) {
				continue
			}
			cands = append(cands, s)
		}
		return m.pickSlot(k, cands)
	}
	// symbolic key
	var cands []int
	if isStr(k) {
		for _, s := range m.byLen[strLen(k)] {
			if m.live[s] {
				cands = append(cands, s)
			}
		}
	} else {
		for s := range m.keys {
			if m.live[s] {
				cands = append(cands, s)
			}
		}
	}
	return m.pickSlot(k, cands)
}

func (m *omap) pickSlot(k value, cands []int) int {
	if len(cands) == 0 {
		return -1
	}
	conds := make([]*expr, len(cands))
	for i, s := range cands {
		conds[i] = keyEqTerm(k, m.keys[s])
	}
	p := pick(conds)
	if p < 0 {
		return -1
	}
	return cands[p]
}

func (m *omap) lookup(k value) (value, bool) {
	s := m.slot(k)
	if s < 0 {
		return nil, false
	}
	return m.vals[s], true
}

func (m *omap) insert(k, v value) {
	if m == nil {
		panic(runtimeErr("assignment to entry in nil map"))
	}
	if s := m.slot(k); s >= 0 {
		m.vals[s] = v
		return
	}
	s := len(m.keys)
	m.keys = append(m.keys, k)
	m.vals = append(m.vals, v)
	m.live = append(m.live, true)
	m.n++
	switch {
	case isSymKey(k):
		m.symSlot = append(m.symSlot, s)
	case m.native:
		m.idx[k] = s
	default:
		if m.hidx == nil {
			m.hidx = map[int][]int{}
		}
		h := k.(hashable).hash(m.keyType)
		m.hidx[h] = append(m.hidx[h], s)
	}
	if isStr(k) {
		if m.byLen == nil {
			m.byLen = map[int][]int{}
		}
		m.byLen[strLen(k)] = append(m.byLen[strLen(k)], s)
	}
}

func (m *omap) delete(k value) {
	if m == nil {
		return
	}
	s := m.slot(k)
	if s < 0 {
		return
	}
	m.live[s] = false
	m.n--
	kk := m.keys[s]
	if !isSymKey(kk) && m.native {
		delete(m.idx, kk)
	}
	m.vals[s] = nil
}

func (m *omap) clear() {
	if m == nil {
		return
	}
	m.keys, m.vals, m.live, m.n = nil, nil, nil, 0
	m.idx = map[value]int{}
	m.hidx, m.byLen, m.symSlot = nil, nil, nil
}

type omapIter struct {
	m   *omap
	pos int
}

func (it *omapIter) next() tuple {
	if it.m != nil {
		for it.pos < len(it.m.keys) {
			s := it.pos
			it.pos++
			if it.m.live[s] {
				return tuple{true, it.m.keys[s], it.m.vals[s]}
			}
		}
	}
	return tuple{false, nil, nil}
}

func (m *omap) String() string { return fmt.Sprintf("omap(%d)", m.len()) }
