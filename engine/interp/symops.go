package interp

// Symbolic versions of the interpreter's scalar, indexing and string operations.

import (
	"fmt"
	"go/token"
	"go/types"
)

func runtimePanic(format string, a ...interface{}) {
	panic(runtimeErr(fmt.Sprintf("runtime error: "+format, a...)))
}

// runtimeErr mimics runtime.Error for doRecover.
type runtimeErr string

func (e runtimeErr) Error() string { return string(e) }
func (e runtimeErr) RuntimeError() {}

func symBinop(op token.Token, x, y value) value {
	ex, kx, ok1 := toExpr(x)
	ey, ky, ok2 := toExpr(y)
	if !ok1 || !ok2 {
		unsupported("symbolic binop %s on %T, %T", op, x, y)
	}
	w, signed := kindWidth(kx)
	if op == token.SHL || op == token.SHR {
		wy, sy := kindWidth(ky)
		if sy {
			// negative shift count panics
			if decide(mkop("bvslt", 0, ey, konst(wy, 0))) {
				runtimePanic("negative shift amount")
			}
		}
		if wy < w {
			ey = mkop("zext", w, ey)
		} else if wy > w {
			big := mkop("bvule", 0, konst(wy, uint64(w)), ey)
			ey = mkop("ite", w, big, konst(w, uint64(w)), mkop("trunc", w, ey))
		}
		// SMT-LIB shifts by >= width give 0 (shl/lshr) or sign fill (ashr): same as Go.
		if op == token.SHL {
			return wrap(mkop("bvshl", w, ex, ey), kx)
		}
		if signed {
			return wrap(mkop("bvashr", w, ex, ey), kx)
		}
		return wrap(mkop("bvlshr", w, ex, ey), kx)
	}
	if kx == types.Bool {
		switch op {
		case token.EQL:
			return wrap(mkop("=", 0, ex, ey), types.Bool)
		case token.NEQ:
			return wrap(mknot(mkop("=", 0, ex, ey)), types.Bool)
		case token.AND, token.LAND:
			return wrap(mkand(ex, ey), types.Bool)
		case token.OR, token.LOR:
			return wrap(mkor(ex, ey), types.Bool)
		}
		unsupported("symbolic bool op %s", op)
	}
	if wy, _ := kindWidth(ky); wy != w {
		unsupported("symbolic binop %s width mismatch %d/%d", op, w, wy)
	}
	sel := func(s, u string) string {
		if signed {
			return s
		}
		return u
	}
	switch op {
	case token.ADD:
		return wrap(mkop("bvadd", w, ex, ey), kx)
	case token.SUB:
		return wrap(mkop("bvsub", w, ex, ey), kx)
	case token.MUL:
		return wrap(mkop("bvmul", w, ex, ey), kx)
	case token.QUO:
		if !decide(mknot(mkop("=", 0, ey, konst(w, 0)))) {
			runtimePanic("integer divide by zero")
		}
		return wrap(mkop(sel("bvsdiv", "bvudiv"), w, ex, ey), kx)
	case token.REM:
		if !decide(mknot(mkop("=", 0, ey, konst(w, 0)))) {
			runtimePanic("integer divide by zero")
		}
		return wrap(mkop(sel("bvsrem", "bvurem"), w, ex, ey), kx)
	case token.AND:
		return wrap(mkop("bvand", w, ex, ey), kx)
	case token.OR:
		return wrap(mkop("bvor", w, ex, ey), kx)
	case token.XOR:
		return wrap(mkop("bvxor", w, ex, ey), kx)
	case token.AND_NOT:
		return wrap(mkop("bvand", w, ex, mkop("bvnot", w, ey)), kx)
	case token.EQL:
		return wrap(mkop("=", 0, ex, ey), types.Bool)
	case token.NEQ:
		return wrap(mknot(mkop("=", 0, ex, ey)), types.Bool)
	case token.LSS:
		return wrap(mkop(sel("bvslt", "bvult"), 0, ex, ey), types.Bool)
	case token.LEQ:
		return wrap(mkop(sel("bvsle", "bvule"), 0, ex, ey), types.Bool)
	case token.GTR:
		return wrap(mkop(sel("bvslt", "bvult"), 0, ey, ex), types.Bool)
	case token.GEQ:
		return wrap(mkop(sel("bvsle", "bvule"), 0, ey, ex), types.Bool)
	}
	unsupported("symbolic binop %s", op)
	return nil
}

func symUnop(op token.Token, s *sym) value {
	w, _ := kindWidth(s.k)
	switch op {
	case token.NOT:
		return wrap(mknot(s.e), types.Bool)
	case token.SUB:
		return wrap(mkop("bvneg", w, s.e), s.k)
	case token.XOR:
		return wrap(mkop("bvnot", w, s.e), s.k)
	}
	unsupported("symbolic unop %s", op)
	return nil
}

func symConvInt(dst types.BasicKind, s *sym) value {
	wd, _ := kindWidth(dst)
	ws, ss := kindWidth(s.k)
	e := s.e
	switch {
	case wd == ws:
	case wd < ws:
		e = mkop("trunc", wd, e)
	case ss:
		e = mkop("sext", wd, e)
	default:
		e = mkop("zext", wd, e)
	}
	return wrap(e, dst)
}

// idx64 widens an index term to 64 bits according to its Go kind.
func idx64(s *sym) *expr {
	w, sg := kindWidth(s.k)
	if w == 64 {
		return s.e
	}
	if sg {
		return mkop("sext", 64, s.e)
	}
	return mkop("zext", 64, s.e)
}

// symIndexCheck forks on the bounds check of a symbolic index; panics on the out-of-range side.
func symIndexCheck(idx *sym, n int) *expr {
	ie := idx64(idx)
	if !decide(mkop("bvult", 0, ie, konst(64, uint64(n)))) {
		runtimePanic("index out of range [symbolic] with length %d", n)
	}
	return ie
}

// loadIndexed returns cells[idx] for a symbolic index (bounds check included).
func loadIndexed(cells []value, idx *sym) value {
	n := len(cells)
	ie := symIndexCheck(idx, n)
	// fast path: a table of concrete scalars of one Go type → ite chain over runs of equal cells
	if n > 0 {
		if k0, _, ok := valKind(cells[0]); ok {
			same := true
			for _, c := range cells[1:] {
				if kk, _, ok := valKind(c); !ok || kk != k0 {
					same = false
					break
				}
			}
			if same {
				ew, _ := kindWidth(k0)
				type run struct {
					start int
					v     value
				}
				runs := make([]run, 0, 16)
				for i, c := range cells {
					if len(runs) == 0 || runs[len(runs)-1].v != c {
						runs = append(runs, run{i, c})
					}
				}
				key := tabKey{&cells[0], n, ie}
				if e, ok := tabCache[key]; ok && len(runs) == e.nruns {
					return wrap(e.e, k0)
				}
				last, _, _ := toExpr(runs[len(runs)-1].v)
				res := last
				for j := len(runs) - 2; j >= 0; j-- {
					cond := mkop("bvult", 0, ie, konst(64, uint64(runs[j+1].start)))
					rv, _, _ := toExpr(runs[j].v)
					res = mkop("ite", ew, cond, rv, res)
				}
				if len(tabCache) < 100000 {
					tabCache[key] = tabEntry{res, len(runs)}
				}
				return wrap(res, k0)
			}
		}
	}
	// all scalar of one kind → ite chain folded over runs of equal cells
	var k types.BasicKind
	allScalar := n > 0
	for i, c := range cells {
		_, kk, ok := toExpr(c)
		if !ok {
			allScalar = false
			break
		}
		if i == 0 {
			k = kk
		} else if kk != k {
			allScalar = false
			break
		}
	}
	if allScalar {
		// a symbolic position into symbolic data: fork per feasible index (keeps later
		// conditions single-variable); a symbolic index into a constant table: one ite term.
		for _, c := range cells {
			if isSym(c) {
				return cells[concreteIndexChecked(ie, n)]
			}
		}
		ew, _ := kindWidth(k)
		type run struct {
			start int
			e     *expr
		}
		var runs []run
		for i, c := range cells {
			e, _, _ := toExpr(c)
			if len(runs) == 0 || runs[len(runs)-1].e != e {
				runs = append(runs, run{i, e})
			}
		}
		res := runs[len(runs)-1].e
		for j := len(runs) - 2; j >= 0; j-- {
			cond := mkop("bvult", 0, ie, konst(64, uint64(runs[j+1].start)))
			res = mkop("ite", ew, cond, runs[j].e, res)
		}
		return wrap(res, k)
	}
	// group indices by identical cell; fork once per distinct cell
	type grp struct {
		rep int
		idx []int
	}
	var groups []*grp
	byKey := map[string]*grp{}
	for i, c := range cells {
		key := cellKey(c)
		if key == "" {
			key = fmt.Sprintf("#%d", i)
		}
		g := byKey[key]
		if g == nil {
			g = &grp{rep: i}
			byKey[key] = g
			groups = append(groups, g)
		}
		g.idx = append(g.idx, i)
	}
	conds := make([]*expr, len(groups))
	for gi, g := range groups {
		var ors []*expr
		for a := 0; a < len(g.idx); {
			b := a
			for b+1 < len(g.idx) && g.idx[b+1] == g.idx[b]+1 {
				b++
			}
			if a == b {
				ors = append(ors, mkop("=", 0, ie, konst(64, uint64(g.idx[a]))))
			} else {
				ors = append(ors, mkand(mkop("bvule", 0, konst(64, uint64(g.idx[a])), ie), mkop("bvule", 0, ie, konst(64, uint64(g.idx[b])))))
			}
			a = b + 1
		}
		conds[gi] = mkor(ors...)
	}
	gi := pick(conds)
	if gi < 0 {
		panic(engineAbort{kind: "engine", msg: "loadIndexed: no group selected"})
	}
	return cells[groups[gi].rep]
}

type tabKey struct {
	p  *value
	n  int
	ie *expr
}
type tabEntry struct {
	e     *expr
	nruns int
}

// tabCache memoises ite chains for (table identity, index term); the run count is re-derived
// from the live table on every use, and a table whose run structure changed misses the cache.
var tabCache = map[tabKey]tabEntry{}

func cellKey(c value) string {
	switch x := c.(type) {
	case nil:
		return "nil"
	case []value:
		if x == nil {
			return "nilslice"
		}
		if len(x) == 0 {
			return ""
		}
		return fmt.Sprintf("s%p/%d", &x[0], len(x))
	case *value:
		return fmt.Sprintf("p%p", x)
	case string:
		return "str:" + x
	case bool, int, int8, int16, int32, int64, uint, uint8, uint16, uint32, uint64, uintptr:
		return fmt.Sprintf("%T:%v", x, x)
	}
	return ""
}

// concreteIndex resolves a symbolic index for a store: forks per feasible in-range index.
func concreteIndex(idx *sym, n int) int {
	return concreteIndexChecked(symIndexCheck(idx, n), n)
}

func concreteIndexChecked(ie *expr, n int) int {
	conds := make([]*expr, n)
	for i := 0; i < n; i++ {
		conds[i] = mkop("=", 0, ie, konst(64, uint64(i)))
	}
	k := pick(conds)
	if k < 0 {
		panic(engineAbort{kind: "engine", msg: "concreteIndex: none"})
	}
	return k
}

// symBound resolves a symbolic slice bound within [0,limit]; out-of-range panics like Go.
func symBound(v value, limit int) int64 {
	s, ok := v.(*sym)
	if !ok {
		return asInt64(v)
	}
	ie := idx64(s)
	if !decide(mkop("bvule", 0, ie, konst(64, uint64(limit)))) {
		runtimePanic("slice bounds out of range [symbolic] with capacity %d", limit)
	}
	return asInt64(concretize(s))
}

// ---------- symbolic strings ----------

// sstr is an immutable string at least one of whose bytes is symbolic.
type sstr struct{ b []value }

// mkString returns a native string when every byte is concrete, else an sstr.
func mkString(b []value) value {
	for _, c := range b {
		if isSym(c) {
			cp := make([]value, len(b))
			copy(cp, b)
			return sstr{cp}
		}
	}
	bs := make([]byte, len(b))
	for i, c := range b {
		bs[i] = c.(byte)
	}
	return string(bs)
}

func strCells(v value) []value {
	switch x := v.(type) {
	case string:
		out := make([]value, len(x))
		for i := 0; i < len(x); i++ {
			out[i] = x[i]
		}
		return out
	case sstr:
		return x.b
	}
	panic(fmt.Sprintf("strCells: %T", v))
}

func strLen(v value) int {
	switch x := v.(type) {
	case string:
		return len(x)
	case sstr:
		return len(x.b)
	}
	panic(fmt.Sprintf("strLen: %T", v))
}

func isStr(v value) bool {
	switch v.(type) {
	case string, sstr:
		return true
	}
	return false
}

func cellEq(a, b value) *expr {
	ea, _, ok1 := toExpr(a)
	eb, _, ok2 := toExpr(b)
	if !ok1 || !ok2 {
		panic(fmt.Sprintf("cellEq: %T %T", a, b))
	}
	return mkop("=", 0, ea, eb)
}

// cellsEqTerm is the term "a == b" for two byte sequences.
func cellsEqTerm(a, b []value) *expr {
	if len(a) != len(b) {
		return eFalse
	}
	cs := make([]*expr, 0, len(a))
	for i := range a {
		c := cellEq(a[i], b[i])
		if c == eFalse {
			return eFalse
		}
		cs = append(cs, c)
	}
	return mkand(cs...)
}

func strEqTerm(x, y value) *expr { return cellsEqTerm(strCells(x), strCells(y)) }

// strLess decides x < y lexicographically (forking).
func strLess(x, y value, orEqual bool) bool {
	a, b := strCells(x), strCells(y)
	for i := 0; i < len(a) && i < len(b); i++ {
		if decide(cellEq(a[i], b[i])) {
			continue
		}
		ea, _, _ := toExpr(a[i])
		eb, _, _ := toExpr(b[i])
		return decide(mkop("bvult", 0, ea, eb))
	}
	if len(a) == len(b) {
		return orEqual
	}
	return len(a) < len(b)
}

func symStrBinop(op token.Token, x, y value) value {
	switch op {
	case token.ADD:
		return mkString(append(append([]value{}, strCells(x)...), strCells(y)...))
	case token.EQL:
		return wrap(strEqTerm(x, y), types.Bool)
	case token.NEQ:
		return wrap(mknot(strEqTerm(x, y)), types.Bool)
	case token.LSS:
		return strLess(x, y, false)
	case token.LEQ:
		return strLess(x, y, true)
	case token.GTR:
		return strLess(y, x, false)
	case token.GEQ:
		return strLess(y, x, true)
	}
	unsupported("string binop %s", op)
	return nil
}

// concreteString forces every byte of a string value (forking).
func concreteString(v value) string {
	switch x := v.(type) {
	case string:
		return x
	case sstr:
		bs := make([]byte, len(x.b))
		for i, c := range x.b {
			bs[i] = concretizeVal(c).(byte)
		}
		return string(bs)
	}
	panic(fmt.Sprintf("concreteString: %T", v))
}

// symStringIter ranges over a symbolic string decoding UTF-8 with the interpreted utf8.DecodeRune.
type symStringIter struct {
	i   *interpreter
	b   []value
	pos int
}

func (it *symStringIter) next() tuple {
	if it.pos >= len(it.b) {
		return tuple{false, nil, nil}
	}
	r, n := decodeRuneCells(it.i, it.b[it.pos:])
	p := it.pos
	it.pos += n
	return tuple{true, p, r}
}

func decodeRuneCells(i *interpreter, b []value) (value, int) {
	if !isSym(b[0]) {
		if c := b[0].(byte); c < 0x80 {
			return rune(c), 1
		}
	}
	fn := i.prog.ImportedPackage("unicode/utf8").Func("DecodeRune")
	res := call(i, X.cur, 0, fn, []value{b}).(tuple)
	return res[0], int(asInt64(res[1]))
}

func appendRuneCells(i *interpreter, b []value, r value) []value {
	if !isSym(r) {
		for _, c := range []byte(string(r.(rune))) {
			b = append(b, c)
		}
		return b
	}
	fn := i.prog.ImportedPackage("unicode/utf8").Func("AppendRune")
	return call(i, X.cur, 0, fn, []value{b, r}).([]value)
}
