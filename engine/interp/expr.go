package interp

// Hash-consed SMT terms over Bool and fixed-width bit-vectors.

import (
	"fmt"
	"strconv"
	"strings"
)

type expr struct {
	op   string
	args []*expr
	w    int // 0 = Bool, otherwise bit-vector width
	c    uint64
	name string
	id   int
	h    uint64 // structural hash, stable across processes
	wt   int    // printed size (capped), used to decide when to name a shared sub-term
	smt  string // cached reference text (valid for solver generation smtGen)
	gen  int
}

type consKey struct {
	op         string
	w          int
	c          uint64
	name       string
	a0, a1, a2 int
	n          int
}

var (
	consTab  = map[consKey]*expr{}
	consTabN = map[string]*expr{} // n-ary (>3 args)
	exprSeq  int
)

func fnv64(h uint64, x uint64) uint64 {
	for i := 0; i < 8; i++ {
		h ^= x & 0xff
		h *= 1099511628211
		x >>= 8
	}
	return h
}

func fnvStr(h uint64, s string) uint64 {
	for i := 0; i < len(s); i++ {
		h ^= uint64(s[i])
		h *= 1099511628211
	}
	return h
}

func mk(op string, w int, c uint64, name string, args ...*expr) *expr {
	var e *expr
	if len(args) <= 3 {
		k := consKey{op: op, w: w, c: c, name: name, n: len(args), a0: -1, a1: -1, a2: -1}
		if len(args) > 0 {
			k.a0 = args[0].id
		}
		if len(args) > 1 {
			k.a1 = args[1].id
		}
		if len(args) > 2 {
			k.a2 = args[2].id
		}
		if e, ok := consTab[k]; ok {
			return e
		}
		e = &expr{op: op, args: args, w: w, c: c, name: name}
		consTab[k] = e
		finishExpr(e)
		return e
	}
	var sb strings.Builder
	sb.WriteString(op)
	sb.WriteByte('|')
	sb.WriteString(strconv.Itoa(w))
	for _, a := range args {
		sb.WriteByte('|')
		sb.WriteString(strconv.Itoa(a.id))
	}
	k := sb.String()
	if e, ok := consTabN[k]; ok {
		return e
	}
	e = &expr{op: op, args: args, w: w, c: c, name: name}
	consTabN[k] = e
	finishExpr(e)
	return e
}

func finishExpr(e *expr) {
	exprSeq++
	e.id = exprSeq
	h := fnvStr(14695981039346656037, e.op)
	h = fnv64(h, uint64(e.w))
	h = fnv64(h, e.c)
	h = fnvStr(h, e.name)
	wt := 1
	for _, a := range e.args {
		h = fnv64(h, a.h)
		wt += a.wt
	}
	if wt > 1<<20 {
		wt = 1 << 20
	}
	e.h = h
	e.wt = wt
}

func mask(w int) uint64 {
	if w >= 64 {
		return ^uint64(0)
	}
	return (uint64(1) << uint(w)) - 1
}

func konst(w int, c uint64) *expr { return mk("const", w, c&mask(w), "") }

var (
	eTrue  = mk("true", 0, 1, "")
	eFalse = mk("false", 0, 0, "")
)

func kbool(b bool) *expr {
	if b {
		return eTrue
	}
	return eFalse
}

func sext64(v uint64, w int) int64 {
	if w >= 64 {
		return int64(v)
	}
	s := uint(64 - w)
	return int64(v<<s) >> s
}

// evaluator with memoisation per call
type evaluator struct {
	m    map[string]uint64
	memo map[*expr]uint64
}

func eval(e *expr, m map[string]uint64) uint64 {
	if isConst(e) {
		return e.c
	}
	ev := evaluator{m: m}
	if e.wt > 16 {
		ev.memo = make(map[*expr]uint64)
	}
	return ev.eval(e)
}

func b2u(b bool) uint64 {
	if b {
		return 1
	}
	return 0
}

func (ev *evaluator) eval(e *expr) uint64 {
	switch e.op {
	case "var":
		if e.w == 0 {
			return ev.m[e.name] & 1
		}
		return ev.m[e.name] & mask(e.w)
	case "const", "true", "false":
		return e.c
	}
	if ev.memo != nil {
		if v, ok := ev.memo[e]; ok {
			return v
		}
	}
	var v uint64
	switch e.op {
	case "ite":
		if ev.eval(e.args[0]) != 0 {
			v = ev.eval(e.args[1])
		} else {
			v = ev.eval(e.args[2])
		}
	case "and":
		v = 1
		for _, a := range e.args {
			if ev.eval(a) == 0 {
				v = 0
				break
			}
		}
	case "or":
		v = 0
		for _, a := range e.args {
			if ev.eval(a) != 0 {
				v = 1
				break
			}
		}
	default:
		var a [3]uint64
		for i, x := range e.args {
			a[i] = ev.eval(x)
		}
		v = evalOp(e, a[:])
	}
	if ev.memo != nil {
		ev.memo[e] = v
	}
	return v
}

func evalOp(e *expr, a []uint64) uint64 {
	w := e.w
	aw := 0
	if len(e.args) > 0 {
		aw = e.args[0].w
	}
	switch e.op {
	case "bvadd":
		return (a[0] + a[1]) & mask(w)
	case "bvsub":
		return (a[0] - a[1]) & mask(w)
	case "bvmul":
		return (a[0] * a[1]) & mask(w)
	case "bvand":
		return a[0] & a[1]
	case "bvor":
		return a[0] | a[1]
	case "bvxor":
		return a[0] ^ a[1]
	case "bvnot":
		return ^a[0] & mask(w)
	case "bvneg":
		return (-a[0]) & mask(w)
	case "bvshl":
		if a[1] >= uint64(w) {
			return 0
		}
		return (a[0] << a[1]) & mask(w)
	case "bvlshr":
		if a[1] >= uint64(w) {
			return 0
		}
		return a[0] >> a[1]
	case "bvashr":
		sh := a[1]
		if sh >= uint64(w) {
			sh = uint64(w - 1)
		}
		return uint64(sext64(a[0], w)>>sh) & mask(w)
	case "bvudiv":
		if a[1] == 0 {
			return mask(w)
		}
		return a[0] / a[1]
	case "bvurem":
		if a[1] == 0 {
			return a[0]
		}
		return a[0] % a[1]
	case "bvsdiv":
		x, y := sext64(a[0], w), sext64(a[1], w)
		if y == 0 {
			if x < 0 {
				return 1
			}
			return mask(w)
		}
		if y == -1 {
			return uint64(-x) & mask(w)
		}
		return uint64(x/y) & mask(w)
	case "bvsrem":
		x, y := sext64(a[0], w), sext64(a[1], w)
		if y == 0 {
			return a[0]
		}
		if y == -1 {
			return 0
		}
		return uint64(x%y) & mask(w)
	case "zext":
		return a[0]
	case "sext":
		return uint64(sext64(a[0], aw)) & mask(w)
	case "trunc":
		return a[0] & mask(w)
	case "=":
		return b2u(a[0] == a[1])
	case "bvult":
		return b2u(a[0] < a[1])
	case "bvule":
		return b2u(a[0] <= a[1])
	case "bvslt":
		return b2u(sext64(a[0], aw) < sext64(a[1], aw))
	case "bvsle":
		return b2u(sext64(a[0], aw) <= sext64(a[1], aw))
	case "not":
		return 1 - a[0]
	}
	panic("eval: " + e.op)
}

func isConst(e *expr) bool { return e.op == "const" || e.op == "true" || e.op == "false" }

// mkop builds a term with constant folding and light simplification.
func mkop(op string, w int, args ...*expr) *expr {
	all := true
	for _, a := range args {
		if !isConst(a) {
			all = false
			break
		}
	}
	if all && len(args) <= 3 {
		tmp := &expr{op: op, args: args, w: w}
		var a [3]uint64
		for i, x := range args {
			a[i] = x.c
		}
		var v uint64
		switch op {
		case "ite":
			if a[0] != 0 {
				v = a[1]
			} else {
				v = a[2]
			}
		case "and":
			v = 1
			for _, x := range args {
				v &= x.c
			}
		case "or":
			for _, x := range args {
				v |= x.c
			}
		default:
			v = evalOp(tmp, a[:])
		}
		if w == 0 {
			return kbool(v != 0)
		}
		return konst(w, v)
	}
	switch op {
	case "and":
		return mkand(args...)
	case "or":
		return mkor(args...)
	case "not":
		return mknot(args[0])
	case "ite":
		c, a, b := args[0], args[1], args[2]
		if c == eTrue {
			return a
		}
		if c == eFalse {
			return b
		}
		if a == b {
			return a
		}
		if w == 0 {
			if a == eTrue && b == eFalse {
				return c
			}
			if a == eFalse && b == eTrue {
				return mknot(c)
			}
		}
	case "=":
		a, b := args[0], args[1]
		if a == b {
			return eTrue
		}
		if isConst(a) && !isConst(b) {
			a, b = b, a
			args = []*expr{a, b}
		}
		if isConst(b) {
			if a.w == 0 { // boolean equality with constant
				if b == eTrue {
					return a
				}
				return mknot(a)
			}
			if a.op == "ite" && isConst(a.args[1]) && isConst(a.args[2]) {
				t := a.args[1].c == b.c
				f := a.args[2].c == b.c
				switch {
				case t && f:
					return eTrue
				case t:
					return a.args[0]
				case f:
					return mknot(a.args[0])
				default:
					return eFalse
				}
			}
			if a.op == "zext" {
				aw := a.args[0].w
				if b.c > mask(aw) {
					return eFalse
				}
				return mkop("=", 0, a.args[0], konst(aw, b.c))
			}
		}
	case "bvadd":
		if isConst(args[1]) && args[1].c == 0 {
			return args[0]
		}
		if isConst(args[0]) && args[0].c == 0 {
			return args[1]
		}
	case "bvsub":
		if isConst(args[1]) && args[1].c == 0 {
			return args[0]
		}
		if args[0] == args[1] {
			return konst(w, 0)
		}
	case "bvult":
		// (zext a) < const  with small a
		a, b := args[0], args[1]
		if a == b {
			return eFalse
		}
		if a.op == "zext" && isConst(b) {
			aw := a.args[0].w
			if b.c > mask(aw) {
				return eTrue
			}
			return mkop("bvult", 0, a.args[0], konst(aw, b.c))
		}
		if b.op == "zext" && isConst(a) {
			bw := b.args[0].w
			if a.c >= mask(bw) {
				return eFalse
			}
			return mkop("bvult", 0, konst(bw, a.c), b.args[0])
		}
		if isConst(b) && b.c == 0 {
			return eFalse
		}
	case "bvule":
		a, b := args[0], args[1]
		if a == b {
			return eTrue
		}
		if a.op == "zext" && isConst(b) {
			aw := a.args[0].w
			if b.c >= mask(aw) {
				return eTrue
			}
			return mkop("bvule", 0, a.args[0], konst(aw, b.c))
		}
		if b.op == "zext" && isConst(a) {
			bw := b.args[0].w
			if a.c > mask(bw) {
				return eFalse
			}
			return mkop("bvule", 0, konst(bw, a.c), b.args[0])
		}
		if isConst(a) && a.c == 0 {
			return eTrue
		}
	case "bvslt", "bvsle":
		a, b := args[0], args[1]
		if a == b {
			return kbool(op == "bvsle")
		}
		// signed compare of zero-extended small values against non-negative constant == unsigned compare
		if a.op == "zext" && a.args[0].w < a.w && isConst(b) && sext64(b.c, b.w) >= 0 {
			if op == "bvslt" {
				return mkop("bvult", 0, a, b)
			}
			return mkop("bvule", 0, a, b)
		}
		if b.op == "zext" && b.args[0].w < b.w && isConst(a) {
			if sext64(a.c, a.w) < 0 {
				return eTrue
			}
			if op == "bvslt" {
				return mkop("bvult", 0, a, b)
			}
			return mkop("bvule", 0, a, b)
		}
	case "zext", "sext":
		if args[0].w == w {
			return args[0]
		}
		if op == "zext" && args[0].op == "zext" {
			return mkop("zext", w, args[0].args[0])
		}
	case "trunc":
		if args[0].w == w {
			return args[0]
		}
		if (args[0].op == "zext" || args[0].op == "sext") && args[0].args[0].w == w {
			return args[0].args[0]
		}
		if (args[0].op == "zext" || args[0].op == "sext") && args[0].args[0].w > w {
			return mkop("trunc", w, args[0].args[0])
		}
		if args[0].op == "zext" && args[0].args[0].w < w {
			return mkop("zext", w, args[0].args[0])
		}
	}
	return mk(op, w, 0, "", args...)
}

func mknot(e *expr) *expr {
	switch {
	case e == eTrue:
		return eFalse
	case e == eFalse:
		return eTrue
	case e.op == "not":
		return e.args[0]
	}
	return mk("not", 0, 0, "", e)
}

func mkand(args ...*expr) *expr {
	out := make([]*expr, 0, len(args))
	for _, a := range args {
		if a == eTrue {
			continue
		}
		if a == eFalse {
			return eFalse
		}
		if a.op == "and" {
			out = append(out, a.args...)
			continue
		}
		out = append(out, a)
	}
	out = dedup(out)
	switch len(out) {
	case 0:
		return eTrue
	case 1:
		return out[0]
	}
	return mk("and", 0, 0, "", out...)
}

func mkor(args ...*expr) *expr {
	out := make([]*expr, 0, len(args))
	for _, a := range args {
		if a == eFalse {
			continue
		}
		if a == eTrue {
			return eTrue
		}
		if a.op == "or" {
			out = append(out, a.args...)
			continue
		}
		out = append(out, a)
	}
	out = dedup(out)
	switch len(out) {
	case 0:
		return eFalse
	case 1:
		return out[0]
	}
	return mk("or", 0, 0, "", out...)
}

func dedup(xs []*expr) []*expr {
	if len(xs) < 2 {
		return xs
	}
	if len(xs) <= 8 {
		out := xs[:0]
	outer:
		for _, x := range xs {
			for _, y := range out {
				if x == y {
					continue outer
				}
			}
			out = append(out, x)
		}
		return out
	}
	seen := make(map[*expr]bool, len(xs))
	out := xs[:0]
	for _, x := range xs {
		if !seen[x] {
			seen[x] = true
			out = append(out, x)
		}
	}
	return out
}

func mkimplies(a, b *expr) *expr { return mkor(mknot(a), b) }

func sortName(w int) string {
	if w == 0 {
		return "Bool"
	}
	return fmt.Sprintf("(_ BitVec %d)", w)
}

// collectVars appends the distinct variables of e to out.
func collectVars(e *expr, seen map[*expr]bool, out *[]*expr) {
	if seen[e] {
		return
	}
	seen[e] = true
	if e.op == "var" {
		*out = append(*out, e)
		return
	}
	for _, a := range e.args {
		collectVars(a, seen, out)
	}
}
