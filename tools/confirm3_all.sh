#!/bin/sh
# confirm every round-3 sub-agent change under /tmp/mut4/out that is not stored yet
export ROUND=4
for d in /tmp/mut4/out/C*; do id=$(basename $d); for m in m7 m8; do
  [ -f $d/$m.diff ] && [ -f $d/${m}_demo_test.go ] || continue
  [ -d /verif/seeded/$id-$m ] && continue
  echo "$id $m: $(/verif/tools/confirm2.sh $id $m /tmp/mut4/out 2>&1 | tail -1)"
done; done
