#!/bin/sh
# tools/confirm2.sh <ID> <mN> [srcdir] : confirm a sub-agent's change (srcdir/<ID>/<mN>.diff, <mN>_demo_test.go, <mN>_notes.md)
# in a scratch worktree of /repo's HEAD: applies, builds, suite passes with it, demo fails with it and passes without it.
# On success store it as /verif/seeded/<ID>-<mN>/ {patch.diff, demo_test.go, notes.md, meta.json}.
id="$1"; m="$2"; src="${3:-/tmp/mut2/out}/$id"
W=/tmp/mut-confirm-$id-$m
export GOFLAGS=-mod=mod GOPROXY=off GOSUMDB=off
[ -f $src/$m.diff ] || { echo "no $src/$m.diff"; exit 2; }
git -C /repo worktree add -q --detach $W HEAD || exit 2
cleanup() { cd /; git -C /repo worktree remove --force $W; }
cd $W
if ! git apply $src/$m.diff 2>/tmp/apply.$$.err; then echo "APPLY-FAILED"; cat /tmp/apply.$$.err; rm -f /tmp/apply.$$.err; cleanup; exit 2; fi
git diff HEAD > /tmp/patch.$$.diff
demo=$src/${m}_demo_test.go
pkg=$(grep -m1 '^package ' $demo | awk '{print $2}')
case "${pkg%_test}" in
  goldmark|main) place=. ;;
  html) place=renderer/html ;;
  east) place=extension/ast ;;
  *) place=$(find . -maxdepth 2 -type d -name "${pkg%_test}" | head -1) ;;
esac
[ -z "$place" ] && place=.
go build ./... || { echo BUILD-FAILED; cleanup; exit 2; }
go test -vet=off -count=1 ./... > /tmp/suite.$$.log 2>&1; s1=$?
cp $demo $place/zz_demo_test.go
go test -vet=off -count=1 -run 'ZZ|Demo|Mut' ./$place > /tmp/demo1.$$.log 2>&1; d1=$?
git checkout -q -- .
go test -vet=off -count=1 -run 'ZZ|Demo|Mut' ./$place > /tmp/demo2.$$.log 2>&1; d2=$?
echo "suite-with-change rc=$s1 (want 0); demo-with-change rc=$d1 (want !=0); demo-without rc=$d2 (want 0)"
if [ $s1 -eq 0 ] && [ $d1 -ne 0 ] && [ $d2 -eq 0 ]; then
  out=/verif/seeded/$id-$m; mkdir -p $out
  cp /tmp/patch.$$.diff $out/patch.diff; cp $demo $out/demo_test.go; cp $src/${m}_notes.md $out/notes.md 2>/dev/null
  python3 - "$id" "$m" "$place" "$out" <<'PY'
import json,sys
id,m,place,out=sys.argv[1:]
notes=''
try: notes=open(out+'/notes.md').read().strip().replace('\n',' ')[:600]
except Exception: pass
json.dump({"property":id,"id":id+"-"+m,"author":"independent sub-agent (round "+__import__("os").environ.get("ROUND","2")+") given only the property record and a scratch worktree of /repo's HEAD",
 "breaks_and_needs":notes,"demo":{"file":"demo_test.go","place_in":place,"run":"go test -vet=off -count=1 -run 'ZZ|Demo|Mut' ./"+place},
 "confirmed":"tools/confirm2.sh: scratch worktree of /repo HEAD; patch applies; go build ./... ok; go test -vet=off -count=1 ./... passes with the change; demo fails with the change and passes without it",
 "detected_by":"(see DESIGN.md section 9 table)"},open(out+'/meta.json','w'),indent=1)
PY
  echo "CONFIRMED -> $out"; rc=0
else
  echo NOT-CONFIRMED; tail -n 6 /tmp/demo1.$$.log /tmp/demo2.$$.log /tmp/suite.$$.log; rc=1
fi
rm -f /tmp/*.$$.log /tmp/patch.$$.diff /tmp/apply.$$.err
cleanup
exit $rc
