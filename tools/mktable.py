#!/usr/bin/env python3
"""Renders DESIGN.md section 9's table from seeded/*/meta.json and seeded/RESULTS.txt (output of tools/mutall.sh)."""
import json, os, re, glob
root = os.path.dirname(os.path.dirname(os.path.abspath(__file__)))
res = {}
p = os.path.join(root, "seeded", "RESULTS.txt")
if os.path.exists(p):
    for l in open(p):
        l = l.rstrip("\n")
        if not l.strip():
            continue
        name = l.split()[0]
        res[name] = l[len(name):].strip()
rows = []
for d in sorted(glob.glob(os.path.join(root, "seeded", "*", "meta.json"))):
    m = json.load(open(d))
    name = m["id"]
    r = res.get(name, "(not run)")
    if "status_at_head" in m and m["status_at_head"].startswith("superseded"):
        verdict, how = "superseded", "no longer breaks the property after a fix: commit (see meta.json)"
    else:
        mm = re.match(r"rc=(\d+) violations=(\d+) \|\s*(.*)", r)
        if mm:
            rc, nv, msg = mm.groups()
            verdict = "caught" if rc == "1" else ("broken-run (exit 3)" if rc == "3" else "MISSED")
            how = msg.strip()[:110]
        else:
            verdict, how = r, ""
    what = m["breaks_and_needs"].replace("|", "\\|").replace("\n", " ")
    what = what[:150] + ("…" if len(what) > 150 else "")
    rows.append("| %s | %s | %s | %s |" % (name, what, verdict, how.replace("|", "\\|")))
table = "| change | what it does / what it needs | `./check %s` quick | first violation reported |\n|---|---|---|---|\n" % "<ID>" + "\n".join(rows) + "\n"
dp = os.path.join(root, "DESIGN.md")
s = open(dp).read()
a, b = "<!-- seeded-table-begin -->\n", "<!-- seeded-table-end -->\n"
if a in s:
    s = s[: s.index(a) + len(a)] + table + s[s.index(b):]
    open(dp, "w").write(s)
caught = sum(1 for r in rows if "| caught |" in r)
print("rows", len(rows), "caught", caught)
