#!/usr/bin/env python3
"""Regenerates MANIFEST.json from tools/checks.json (claimed checks) and properties.jsonl."""
import json, os
root = os.path.dirname(os.path.dirname(os.path.abspath(__file__)))
props = [json.loads(l)["id"] for l in open(os.path.join(root, "properties.jsonl"))]
checks = json.load(open(os.path.join(root, "tools", "checks.json")))
claimed = {c["property_id"] for c in checks["checks"]}
na = checks.get("not_applicable", {})
man = {
    "version": 1,
    "setup_cmd": "./setup.sh",
    "hooks": {
        "guard": "verif",
        "enable": "none needed: harnesses are injected with go/packages overlays (engine) and go build -overlay (native replay); /repo is never written by a check",
        "baseline_off_cmd": "cd /repo && GOFLAGS=-mod=mod GOPROXY=off GOSUMDB=off go test -vet=off -count=1 ./...",
        "source_commits": [],
        "add_only": True,
    },
    "engines": [{
        "name": "gosym",
        "path": "/verif/engine",
        "serves_properties": sorted(claimed),
        "kind_free_text": "bounded symbolic execution of goldmark's Go SSA (forked x/tools ssa/interp widened with SMT bit-vector terms), exhaustive path exploration by decision-prefix re-execution, z3 deciding every branch feasibility and assertion; counterexamples replayed natively",
    }],
    "checks": [],
    "notes": checks.get("notes", ""),
    "not_applicable": [],
}
for c in checks["checks"]:
    pid = c["property_id"]
    man["checks"].append({
        "property_id": pid,
        "quick_cmd": f"./check {pid} --tier quick",
        "thorough_cmd": f"./check {pid} --tier thorough",
        "evidence_file": f"/verif/evidence/{pid}.json",
        "replay_cmd_template": "./bin/gosym replay {path}",
        "engine": "gosym",
        "level_claimed": {"category": c.get("category", "model_checking"), "text": c["text"], "design_ref": c.get("design_ref", "DESIGN.md section 3 " + pid)},
        "level_note": c["note"],
        "technique": c.get("technique", "bounded symbolic execution of the real Go SSA + z3 (QF_BV); counterexample replay in the native build"),
    })
for pid in props:
    if pid not in claimed:
        man["not_applicable"].append({"property_id": pid, "reason": na.get(pid, "check not built yet (work in progress; see DESIGN.md section 3)")})
json.dump(man, open(os.path.join(root, "MANIFEST.json"), "w"), indent=1)
print("claimed:", sorted(claimed))
