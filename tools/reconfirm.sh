#!/bin/sh
# tools/reconfirm.sh <seeded-dir> : re-validate a stored seeded change against /repo's current HEAD in a scratch
# worktree: patch applies, builds, suite passes with it, demo fails with it and passes without it.
d="$1"
W=/tmp/mut-reconfirm-$$
export GOFLAGS=-mod=mod GOPROXY=off GOSUMDB=off
git -C /repo worktree add -q --detach $W HEAD || exit 2
cleanup() { git -C /repo worktree remove --force $W; }
cd $W
if ! git apply $d/patch.diff 2>/tmp/apply.$$.err; then echo "APPLY-FAILED"; cat /tmp/apply.$$.err; rm -f /tmp/apply.$$.err; cleanup; exit 2; fi
place=$(python3 -c "import json;print(json.load(open('$d/meta.json'))['demo']['place_in'])")
go build ./... || { echo "BUILD-FAILED"; cleanup; exit 2; }
go test -vet=off -count=1 ./... > /tmp/suite.$$.log 2>&1; s1=$?
cp $d/demo_test.go $place/zz_demo_test.go
go test -vet=off -count=1 -run 'ZZ|Demo|Mut' ./$place > /tmp/demo1.$$.log 2>&1; d1=$?
git checkout -q -- . 
go test -vet=off -count=1 -run 'ZZ|Demo|Mut' ./$place > /tmp/demo2.$$.log 2>&1; d2=$?
echo "suite-with-change rc=$s1 (want 0); demo-with-change rc=$d1 (want !=0); demo-without rc=$d2 (want 0)"
if [ $s1 -eq 0 ] && [ $d1 -ne 0 ] && [ $d2 -eq 0 ]; then echo CONFIRMED; rc=0; else echo NOT-CONFIRMED; tail -n 8 /tmp/demo1.$$.log /tmp/demo2.$$.log /tmp/suite.$$.log; rc=1; fi
rm -f /tmp/*.$$.log /tmp/apply.$$.err
cd /; cleanup
exit $rc
