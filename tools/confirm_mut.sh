#!/bin/sh
# tools/confirm_mut.sh <ID> <m1|m2> : confirm a sub-agent's seeded change in a scratch worktree of /repo's HEAD
# (compiles, suite passes, demo fails with it and passes without it) and store it under /verif/seeded/.
id="$1"; m="$2"
src=/tmp/mut/out/$id
W=/tmp/mut/scratch-$id-$m
export GOFLAGS=-mod=mod GOPROXY=off GOSUMDB=off
git -C /repo worktree add -q --detach $W HEAD || exit 2
cleanup() { git -C /repo worktree remove --force $W; }
cd $W
if ! git apply --3way $src/$m.diff 2>/tmp/apply.err; then echo "APPLY-FAILED"; cat /tmp/apply.err; cleanup; exit 2; fi
git diff HEAD > /tmp/rebased.$id.$m.diff
demo=$src/${m}_demo_test.go
pkg=$(grep -m1 '^package ' $demo | awk '{print $2}')
case "${pkg%_test}" in
  goldmark|main) place=. ;;
  html) place=renderer/html ;;
  east) place=extension/ast ;;
  *) place=$(find . -maxdepth 2 -type d -name "${pkg%_test}" | head -1) ;;
esac
[ -z "$place" ] && place=.
cp $demo $place/zz_demo_${m}_test.go
echo "build:"; go build ./... && echo ok
echo "suite with change:"; go test -vet=off -count=1 ./... 2>&1 | grep -v "no test files" | grep -v "^ok" | head -5; 
# the suite run above includes the demo; run the suite without the demo file for the 'passes' claim
mv $place/zz_demo_${m}_test.go /tmp/zz_demo.$$.go
go test -vet=off -count=1 ./... > /tmp/suite.$$.log 2>&1; s1=$?; echo "suite(with change, no demo) rc=$s1"
mv /tmp/zz_demo.$$.go $place/zz_demo_${m}_test.go
go test -vet=off -count=1 -run 'ZZ|Demo|Mut' ./$place > /tmp/demo1.$$.log 2>&1; d1=$?; echo "demo with change rc=$d1 (want !=0)"
git reset -q --hard HEAD
go test -vet=off -count=1 -run 'ZZ|Demo|Mut' ./$place > /tmp/demo2.$$.log 2>&1; d2=$?; echo "demo without change rc=$d2 (want 0)"
if [ $s1 -eq 0 ] && [ $d1 -ne 0 ] && [ $d2 -eq 0 ]; then
  out=/verif/seeded/$id-$m; mkdir -p $out
  cp /tmp/rebased.$id.$m.diff $out/patch.diff; cp $demo $out/demo_test.go
  echo "CONFIRMED -> $out (demo dir: $place)"
  echo "$place" > $out/.place
else
  echo "NOT-CONFIRMED"; for f in /tmp/demo1.$$.log /tmp/demo2.$$.log /tmp/suite.$$.log; do tail -n 5 $f; done
fi
rm -f /tmp/*.$$.log
cleanup
