#!/bin/sh
# tools/runall.sh [tier] : every check once on /repo as it stands; one summary line per check (writes /verif/evidence)
tier="${1:-quick}"
cd /verif
for i in 01 02 03 04 05 06 07 08 09 10 11 12 13 14 15 16 17 18 19 20; do
  id=C$i
  t0=$(date +%s)
  ./check $id --tier $tier > .work/runall_$id.log 2>&1
  rc=$?
  t1=$(date +%s)
  echo "$id rc=$rc wall=$((t1-t0))s $(grep -E "^$id $tier:" .work/runall_$id.log | sed 's/queries.*complete=/complete=/' | cut -c1-120) $(grep -c '^INCOMPLETE' .work/runall_$id.log) incomplete-lines"
done
