#!/bin/sh
# tools/mutall.sh [ids...] : run every stored seeded change against its property's quick check; one line per change.
cd /verif
for d in ${@:-$(ls seeded)}; do
  id=${d%%-*}
  [ -f seeded/$d/patch.diff ] || continue
  if grep -q '"status_at_head": "superseded' seeded/$d/meta.json 2>/dev/null; then echo "$d SUPERSEDED"; continue; fi
  out=$(tools/mutest.sh /verif/seeded/$d/patch.diff $id quick 2>&1)
  rc=$(echo "$out" | grep -o "^rc=[0-9]*" | head -1)
  v=$(echo "$out" | grep -o "^violations=[0-9]*" | head -1)
  msg=$(echo "$out" | grep -E "^  (panic|assert|monitor|budget)" | head -1 | cut -c1-140)
  [ -z "$rc" ] && msg=$(echo "$out" | head -2 | tr '\n' ' ')
  echo "$d $rc $v |$msg"
done
