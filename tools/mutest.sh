#!/bin/sh
# tools/mutest.sh <patch.diff> <ID> [tier]  — run a check against a seeded change WITHOUT touching /repo:
# the change is applied in a scratch git worktree of /repo's HEAD, and the check is pointed at that tree
# (REPO_DIR) through a scratch copy of the harness module whose go.mod replaces goldmark by the scratch tree
# (HARNESS_DIR). Evidence of such runs goes to .work/, never to /verif/evidence.
patch="$1"; id="$2"; tier="${3:-quick}"
S=/verif/.work/mut-$$; mkdir -p $S
W=$S/repo
git -C /repo worktree add -q --detach $W HEAD || exit 2
cleanup() { git -C /repo worktree remove --force $W 2>/dev/null; rm -rf $S; }
if ! git -C $W apply "$patch" 2>$S/apply.err; then echo "patch does not apply"; cat $S/apply.err; cleanup; exit 2; fi
cp -r /verif/harness $S/harness
sed -i "s#=> /repo#=> $W#" $S/harness/go.mod
cd /verif
# stop exploring once a few counterexamples exist (they are then confirmed natively as usual); not for the checks whose
# clean-tree runs already meet known findings (C11, C16), where the first violations may be the known ones
stop=6; case "$id" in C11|C16) stop=0;; esac
REPO_DIR=$W HARNESS_DIR=$S/harness GOSYM_EVIDENCE_DIR=$S/evidence GOSYM_STOP_AFTER_VIOLATIONS=${MUTEST_STOP:-$stop} ./check "$id" --tier "$tier" > $S/log 2>&1
rc=$?
if [ $rc -ne 1 ] && [ "${MUTEST_STOP:-$stop}" != "0" ] && grep -q "stopped early" $S/log; then
  # the early counterexamples were not confirmable (e.g. they depend on state leaked between explored paths): full run
  REPO_DIR=$W HARNESS_DIR=$S/harness GOSYM_EVIDENCE_DIR=$S/evidence ./check "$id" --tier "$tier" > $S/log 2>&1
  rc=$?
fi
echo "rc=$rc"; grep -c "^VIOLATION" $S/log | sed 's/^/violations=/'
grep -E "^  (panic|assert|monitor|budget)|^CHECK-BROKEN|^ENGINE|^INCOMPLETE|^C[0-9]+ (quick|thorough)" $S/log | head -${MUTEST_LINES:-8}
cleanup
exit $rc
