#!/bin/sh
# tools/mutest.sh <patch.diff> <ID> [tier]  — apply a seeded change to /repo, run the check, undo.
patch="$1"; id="$2"; tier="${3:-quick}"
cd /repo || exit 2
git diff --quiet || { echo "/repo not clean"; exit 2; }
git apply "$patch" || { echo "patch does not apply"; exit 2; }
cd /verif
GOSYM_EVIDENCE_DIR=/verif/.work/mut-evidence ./check "$id" --tier "$tier" > /tmp/mutest.$$.log 2>&1
rc=$?
git -C /repo checkout -- . ; git -C /repo clean -fdq
echo "rc=$rc"; grep -c "^VIOLATION" /tmp/mutest.$$.log | sed 's/^/violations=/'
grep -E "^  (panic|assert|monitor|budget)|^CHECK-BROKEN|^ENGINE|^INCOMPLETE|^C[0-9]+ (quick|thorough)" /tmp/mutest.$$.log | head -${MUTEST_LINES:-8}
rm -f /tmp/mutest.$$.log
exit $rc
