#!/usr/bin/env python3
"""Merges sweep outputs (tools/mutall.sh; later files and later lines win) into seeded/RESULTS.txt."""
import sys, os, re
root = os.path.dirname(os.path.dirname(os.path.abspath(__file__)))
res = {}
for f in sys.argv[1:]:
    if not os.path.exists(f):
        continue
    for l in open(f):
        l = l.rstrip("\n")
        m = re.match(r"(C\d\d-m\d+) (.*)", l)
        if m:
            res[m.group(1)] = m.group(2)
with open(os.path.join(root, "seeded", "RESULTS.txt"), "w") as out:
    for k in sorted(res):
        out.write("%s %s\n" % (k, res[k]))
print(len(res), "entries;", sum(1 for v in res.values() if v.startswith("rc=1")), "caught;",
      [k for k, v in sorted(res.items()) if not v.startswith("rc=1") and "SUPERSEDED" not in v])
