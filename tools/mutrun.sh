#!/bin/sh
# tools/mutrun.sh <seeded-id> <gosym run args...> : one `gosym run` job against a seeded change (scratch worktree, /repo untouched)
d="$1"; shift
S=/verif/.work/mutrun-$$; mkdir -p $S; W=$S/repo
git -C /repo worktree add -q --detach $W HEAD || exit 2
cleanup() { git -C /repo worktree remove --force $W 2>/dev/null; rm -rf $S; }
git -C $W apply /verif/seeded/$d/patch.diff || { echo "patch does not apply"; cleanup; exit 2; }
cp -r /verif/harness $S/harness; sed -i "s#=> /repo#=> $W#" $S/harness/go.mod
cd /verif
export GOFLAGS=-mod=mod GOPROXY=off GOSUMDB=off GOTOOLCHAIN=local CGO_ENABLED=0
REPO_DIR=$W HARNESS_DIR=$S/harness ./bin/gosym run "$@" 2>&1 | grep -E "paths=|VIOL|ERR|INCOMP|model=|obs=" | cut -c1-${MUTRUN_W:-300} | head -${MUTRUN_LINES:-12}
cleanup
