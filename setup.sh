#!/bin/sh
# Builds the checker from files on disk only (offline).
set -e
cd "$(dirname "$0")"
export GOFLAGS=-mod=mod GOPROXY=off GOSUMDB=off GOTOOLCHAIN=local CGO_ENABLED=0
mkdir -p bin evidence
(cd engine && go build -o ../bin/gosym ./cmd/gosym)
echo "built bin/gosym"
